"""Cross-validation of the CFG / PDA / LL(1) / indexed-grammar / FST / feature-structure / regex reference models."""
import itertools
import re

from vf.gen import cfg as gcfg
from vf.ref import cfg as rc
from vf.ref import fs as rfs
from vf.ref import fst as rf
from vf.ref import ig as ri
from vf.ref import ll1 as rl
from vf.ref import nfa as rn
from vf.ref import pda as rp
from vf.ref import regexsem as rs


def brute_cfg_words(g, N, max_steps=20000):
    """independent membership: breadth-first leftmost derivation of sentential forms (pruned by terminal count)"""
    out = set()
    if g.start is None:
        return out
    nul = g.nullable()
    start = (("V", g.start),)
    seen = {start}
    todo = [start]
    by = {}
    for h, b in g.prods:
        by.setdefault(h, []).append(b)
    steps = 0
    while todo:
        form = todo.pop()
        steps += 1
        if steps > max_steps:
            return None
        idx = next((i for i, x in enumerate(form) if x[0] == "V"), None)
        if idx is None:
            out.add(tuple(x[1] for x in form))
            continue
        for b in by.get(form[idx][1], ()):
            nf = form[:idx] + tuple(b) + form[idx + 1:]
            # prune: terminals and non-nullable variables each need at least one symbol
            need = sum(1 for x in nf if x[0] == "T" or x[1] not in nul)
            if need <= N and len(nf) <= N + 4 and nf not in seen:
                seen.add(nf)
                todo.append(nf)
    return {w for w in out if len(w) <= N}


def run(rng, quick, chk):
    rounds = 60 if quick else 600
    # ---- CFG bounded language vs brute force derivations, vs PDA oracle on the textbook construction
    for _ in range(rounds):
        c = gcfg.random_case(rng, max_vars=3, max_terms=2, max_prods=5, max_body=3, vcs=["str"])
        g = gcfg.ref_of_case(c)
        L = g.words(4)
        b = brute_cfg_words(g, 4)
        if b is not None:
            chk("cfg-lang-vs-derivations", b == L, (c,))
        p = rp.from_grammar(g)
        ok = all(p.accepts_empty_stack(w) == (w in L) for w in rn.all_words(sorted(g.terminals), 4))
        chk("cfg-vs-pda", ok, (c,))
        chk("cfg-empty", g.is_empty() == (not g.words(8)) or not g.is_empty())
        if len(c["prods"]) and max((len(p_[1]) for p_ in c["prods"]), default=0) <= 2 and c["nv"] <= 3:
            longw = any(len(w) >= 6 for w in g.words(9))
            chk("cfg-finite", g.is_finite() == (not longw), (c,))
        if g.is_finite() and not g.is_empty():
            ml = g.max_len(20)
            if ml <= 9:
                chk("cfg-max-len", ml == max(len(w) for w in g.words(9)), (c,))
    # ---- LL(1): table-driven reference parser vs bounded language on LL(1) grammars
    n_ll1 = 0
    from vf.props.c14 import ll1_biased, useless_free
    for _ in range(rounds * 2):
        c = ll1_biased(rng)
        g = gcfg.ref_of_case(c)
        if not useless_free(g):
            continue
        first, follow, ll1, predict = rl.analyse(g)
        if not ll1:
            continue
        n_ll1 += 1
        L = g.words(4)
        for w in rn.all_words(sorted(g.terminals), 4):
            r = rl.parse(g, w, predict)
            if r is not None:
                chk("ll1-parser-vs-language", r == (w in L), (c, w))
    chk("ll1-some-grammars", n_ll1 > 5)
    # ---- indexed grammars: antichain vs all subsets vs brute force
    from vf.props.c17 import rand_rules
    for _ in range(rounds):
        rules = rand_rules(rng)
        try:
            a = ri.nonempty(rules)
            b = ri.nonempty_allsubsets(rules)
            chk("ig-antichain-vs-allsubsets", a == b, (rules,))
        except ri.GaveUp:
            continue
        if ri.brute_words(rules):
            chk("ig-brute-implies-nonempty", a, (rules,))
    # ---- FST relation algebra identities
    from vf.gen import fst as gfst

    def ref_fst(c):
        tr = [(gfst.sval(c, p), "epsilon" if a < 0 else gfst.INS[a], gfst.sval(c, q), tuple(gfst.OUTS[o] for o in out))
              for p, a, q, out in c["trans"]]
        return rf.FST([], [gfst.sval(c, s) for s in c["starts"]], [gfst.sval(c, s) for s in c["finals"]], tr)
    for _ in range(rounds):
        A, B = ref_fst(gfst.random_case(rng)), ref_fst(gfst.random_case(rng))
        if A.eps_cycle_writes() or B.eps_cycle_writes():
            continue
        for w in rn.all_words("ab", 3):
            chk("fst-union-commutes", rf.rel_union(A, B, w) == rf.rel_union(B, A, w))
            if not any(A.relation(())):
                s = rf.rel_star(A, w)
                # R* = {eps} + R.R*  on this word
                unfold = set()
                for i in range(1, len(w) + 1):
                    for x in A.relation(w[:i]):
                        for y in rf.rel_star(A, w[i:]):
                            unfold.add(x + y)
                if len(w) == 0:
                    unfold.add(())
                chk("fst-star-unfolding", s == unfold, (w,))
    # ---- feature structures: commutativity / idempotence of reference unification
    from vf.props.c18 import rand_spec
    for _ in range(rounds * 3):
        a, b = rand_spec(rng), rand_spec(rng)
        ga, gb = rfs.from_spec(a), rfs.from_spec(b)
        try:
            x = rfs.canonical(rfs.unify(ga, gb))
            okx = True
        except (rfs.Clash, ValueError):
            okx = False
        try:
            y = rfs.canonical(rfs.unify(rfs.from_spec(b), rfs.from_spec(a)))
            oky = True
        except (rfs.Clash, ValueError):
            oky = False
        chk("fs-unify-commutes", okx == oky and (not okx or x == y), (a, b))
        try:
            chk("fs-unify-idempotent", rfs.canonical(rfs.unify(rfs.from_spec(a), rfs.from_spec(a))) == rfs.canonical(rfs.from_spec(a)))
        except (rfs.Clash, ValueError):
            pass
    # ---- regex reference: parser+NFA vs Python re
    for _ in range(rounds * 2):
        ast = rs.gen_ast(rng, rng.choice([1, 2, 3]), escaped=0)
        text = rs.render(ast, rng, redundant=rng.choice([0, 0.3]))
        ref = rs.to_nfa(rs.parse(text))
        ref2 = rs.to_nfa(ast)
        chk("regex-render-parse", rn.equiv(ref, ref2) is None, (text,))
        syms = sorted(ref.alpha)
        if len(syms) <= 3:
            chmap = {s: chr(65 + i) for i, s in enumerate(syms)}
            pat = re.compile(rs.to_py(ast, chmap))
            ok = all(ref.accepts(w) == (pat.fullmatch("".join(chmap[s] for s in w)) is not None)
                     for w in rn.all_words(syms, 4 if len(syms) <= 2 else 3))
            chk("regex-nfa-vs-python-re", ok, (text,))
