"""CFG workload generators: canonical cases, builder through the public API."""
import itertools
import random

VARS = {
    "str": ["S", "A", "B", "C", "D", "E", "F", "G", "H", "I", "J", "K", "L", "M"] + ["N%d" % i for i in range(14, 60)],
    "int": list(range(1300)),
    "clash": ["S", "a", "B", "b", "C"],                       # a variable and a terminal share a value
    "reserved": ["S", "a#CNF#", "C#CNF#1", "S#SUBS#0", "#STARTUNION#"],
    "lower": ["s", "np", "vp", "x1", "y", "zed"],
    "lowerclash": ["s", "n", "vp", "b", "y", "Cap"],           # lower-case names shared by variables and terminals
    "termlike": ["S", "#TERM#a", "#TERM#b", "Start", "C#CNF#2"],
    "odd": ["S", "#n", "1st", "_tmp", "Éa", "x-y"],
    "cnfnames": ["S", "C#CNF#2", "C#CNF#4", "C#CNF#1"],
    "lookalike": [0, "0", 1, "1", "S"],
    "eqprint": ["S", 1, True, 0, False],                       # equal and hash-equal values that print differently
    "spaced": ["S", "A", "B", "C"],
    "dollar": ["S", "A", "B", "C"],
    "epsvar": ["s", "epsilon", "$", "np", "eps"],             # lower-case variables spelled like the empty word                            # a terminal called "$" (the LL(1) end marker's text)                            # terminals whose concatenated texts coincide                        # different values that print alike
    "freshnames": ["S", "#STARTCLOS#", "#STARTCONC#", "#STARTPOSCLOS#", "#VARPOSCLOS#"],
    "emptyname": ["#EMPTY", "S", "A", "#EMPTY#SUBS#0", "B"],   # the placeholder name substitute() gives a start-less operand         # variables that are neither lower- nor upper-case initial
}
TERMS = {
    "str": ["a", "b", "c", "d", "e"], "int": ["a", "b", "c"], "clash": ["a", "b", "c"],
    "reserved": ["a", "#0UNION#", "#1CONC#"], "lower": ["a", "b", "Cap"], "lowerclash": ["n", "b", "Cap"], "termlike": ["a", "b", "c"],
    "lookalike": [1, "1", "a"], "eqprint": ["a", "b", "c"], "spaced": ["a", "b", "a b", "b a"], "dollar": ["$", "a", "b"], "epsvar": ["a", "b", "Cap"], "freshnames": ["a", "#1CLOS#", "#1POSCLOS#"],
    "odd": ["a", "Éb", "2"], "emptyname": ["a", "b", "c"], "cnfnames": ["a", "b", "c"],
}
VCS = ["str", "str", "str", "int", "clash", "reserved", "lower", "termlike", "inject", "inject", "lookalike", "freshnames", "spaced", "eqprint"]


def dense_case(rng):
    """two or three variables that all derive overlapping sets of short words: binary bodies over the variables (the
    start symbol among them, so it is recursive), a terminal or two per variable, now and then an epsilon production -
    many ways of splitting every factor of a word"""
    nv = rng.choice([2, 3, 3])
    prods = []
    for h in range(nv):
        for t in rng.sample([0, 1], rng.choice([1, 1, 2])):
            prods.append([h, [["T", t]]])
    for _ in range(rng.randint(nv, 2 * nv + 1)):
        L = rng.choice([2, 2, 2, 3])
        body = [["V", rng.randrange(nv)] if rng.random() < 0.8 else ["T", rng.randrange(2)] for _ in range(L)]
        p_ = [rng.randrange(nv), body]
        if p_ not in prods:
            prods.append(p_)
    if rng.random() < 0.4:
        prods.append([rng.randrange(nv), []])
    if rng.random() < 0.3:
        prods.append([rng.randrange(nv), [["V", rng.randrange(nv)]]])
    keep = rng.randint(max(2, len(prods) - 3), len(prods))
    rng.shuffle(prods)
    return {"nv": nv, "nt": 2, "start": 0, "prods": prods[:keep], "vc": rng.choice(["str", "str", "int", "lower"]), "dense": True}


def layered_case(rng):
    """no epsilon, no recursion: a variable only uses variables of later layers, bodies may START with variables and
    alternatives share their tails or heads (S -> A X | B X): the shape top-down backtracking parsers are documented for"""
    nv = rng.randint(3, 5)
    prods = []
    for h in range(nv - 1):
        for _ in range(rng.choice([1, 2, 2, 3])):
            L = rng.choice([1, 2, 2, 3])
            body = [["V", rng.randrange(h + 1, nv)] if rng.random() < 0.7 else ["T", rng.randrange(2)] for _ in range(L)]
            if [h, body] not in prods:
                prods.append([h, body])
        if rng.random() < 0.5 and prods and prods[-1][0] == h and len(prods[-1][1]) >= 2:
            # an alternative with the same tail (or the same head) and another first (last) symbol
            b = [list(x) for x in prods[-1][1]]
            k = 0 if rng.random() < 0.6 else len(b) - 1
            b[k] = ["V", rng.randrange(h + 1, nv)] if rng.random() < 0.7 else ["T", rng.randrange(2)]
            if [h, b] not in prods:
                prods.append([h, b])
    for h in range(1, nv):
        for t in rng.sample([0, 1], rng.choice([1, 1, 2])):
            if [h, [["T", t]]] not in prods:
                prods.append([h, [["T", t]]])
    rng.shuffle(prods)
    return {"nv": nv, "nt": 2, "start": 0, "prods": prods, "vc": rng.choice(["str", "str", "int", "lower"]), "layered": True}


def random_case(rng, max_vars=4, max_terms=2, max_prods=7, max_body=4, vcs=None, p_eps=None):
    nv = rng.randint(1, max_vars)
    nt = rng.randint(1, max_terms)
    npr = rng.randint(0 if rng.random() < 0.05 else 1, max_prods)
    p_eps = rng.choice([0.0, 0.15, 0.3]) if p_eps is None else p_eps
    p_var = rng.choice([0.35, 0.5, 0.65])
    prods = []
    for _ in range(npr):
        h = rng.randrange(nv)
        r = rng.random()
        if r < p_eps:
            body = []
        elif r < p_eps + 0.12:
            body = [["V", rng.randrange(nv)]]          # unit (maybe self) production
        else:
            L = rng.randint(1, max_body)
            body = [["V", rng.randrange(nv)] if rng.random() < p_var else ["T", rng.randrange(nt)] for _ in range(L)]
        p = [h, body]
        if p not in prods:
            prods.append(p)
    r = rng.random()
    start = 0 if r < 0.93 else (None if r < 0.96 else nv)      # nv: a start symbol without productions
    vc = rng.choice(vcs or VCS)
    c = {"nv": nv, "nt": nt, "start": start, "prods": prods, "vc": vc}
    if vc == "inject":
        perm = list(range(8))
        rng.shuffle(perm)
        if rng.random() < 0.2:
            perm = [rng.randrange(2) for _ in perm]                  # different keys, equal hashes
        c["perm"] = perm
    if rng.random() < 0.5:
        c["shuffle"] = rng.randrange(1 << 30)
    if rng.random() < 0.15:
        c["declare"] = True            # variables and terminals also passed to the constructor (declared alphabet)
        if rng.random() < 0.3:
            c["prods"] = []             # nothing but the declared alphabet
    return c


def large_case(rng, vcs=("str", "int")):
    """an ordinary-sized grammar: ten to thirteen variables (two-digit numbers wherever variables are numbered), fifteen
    to twenty productions, one body of five or six symbols, layered so that most variables generate short words"""
    nv = rng.randint(10, 13)
    nt = 2
    prods = []
    for v in range(nv - 1, -1, -1):
        lower = list(range(v + 1, nv))
        for _ in range(1 if v else 2):
            r = rng.random()
            if not lower or r < 0.35:
                body = [["T", rng.randrange(nt)]]
            elif r < 0.5:
                body = [["V", rng.choice(lower)]]
            elif r < 0.9:
                body = [["V", rng.choice(lower)] if rng.random() < 0.6 else ["T", rng.randrange(nt)] for _ in range(2)]
            else:
                body = []
            prods.append([v, body])
    long_body = [["V", rng.randrange(1, nv)] if rng.random() < 0.5 else ["T", rng.randrange(nt)] for _ in range(rng.randint(5, 6))]
    prods.append([rng.randrange(nv), long_body])
    if rng.random() < 0.5:
        prods.append([rng.randrange(nv), [["V", 0]] if rng.random() < 0.3 else [["T", 0], ["V", rng.randrange(nv)]]])
    uniq = []
    for p_ in prods:
        if p_ not in uniq:
            uniq.append(p_)
    c = {"nv": nv, "nt": nt, "start": 0, "prods": uniq, "vc": rng.choice(list(vcs)), "large": True}
    if rng.random() < 0.5:
        c["shuffle"] = rng.randrange(1 << 30)
    return c


def wide_case(rng):
    """forty variables, each heading a non-empty production; the start symbol derives the empty word only through a
    non-empty production"""
    nv = rng.randint(36, 44)
    prods = [[0, [["V", 1], ["V", 2]]]]
    for v in range(1, nv):
        nxt = v + 1 if v + 1 < nv else 1
        prods.append([v, [["T", v % 2], ["V", nxt]] if v % 3 else [["V", nxt], ["T", v % 2]]])
        if v < 12 or rng.random() < 0.3:
            prods.append([v, []])
    c = {"nv": nv, "nt": 2, "start": 0, "prods": prods, "vc": rng.choice(["str", "int"]), "large": True, "wide": True}
    if rng.random() < 0.5:
        c["shuffle"] = rng.randrange(1 << 30)
    return c


def long_chain_case(n=1200):
    """V0 -> a V1 | b, V1 -> a V2 | b, ... : a chain of n variables reachable only through one another"""
    prods = []
    for v in range(n):
        if v + 1 < n:
            prods.append([v, [["T", 0], ["V", v + 1]]])
        prods.append([v, [["T", 1]]])
    return {"nv": n, "nt": 2, "start": 0, "prods": prods, "vc": "int", "large": True, "chain": True}


def long_body_case(rng):
    """one body of twelve to fourteen symbols (ten or more helper variables in the normal form)"""
    n = rng.randint(12, 14)
    body = [["T", i % 3] if i % 4 else ["V", 1] for i in range(n)]
    prods = [[0, body], [1, [["T", 0]]], [1, [["T", 1], ["T", 2]]], [0, [["T", 2], ["V", 0], ["T", 1]]]]
    w1 = [x[1] if x[0] == "T" else 0 for x in body]
    w2 = []
    for x in body:
        w2.extend([x[1]] if x[0] == "T" else [1, 2])
    return {"nv": 2, "nt": 3, "start": 0, "prods": prods, "vc": rng.choice(["str", "int"]), "large": True, "longbody": True,
            "long_words": [w1, w2, [2] + w1 + [1], w1[:-1], [2] + w1]}


def repeat_case(rng):
    """bodies that use one symbol twice or three times next to another symbol (T -> A A b, T -> b A A, T -> A b A),
    the repeated symbol nullable and/or generating, the other one not always: per-production counters that are
    decremented per occurrence and restored per occurrence"""
    nv = rng.randint(3, 4)
    prods = []
    for h in range(1, nv):
        r = rng.random()
        if r < 0.5:
            prods.append([h, []])
        if r > 0.3:
            prods.append([h, [["T", rng.randrange(2)]]])
        if rng.random() < 0.15:
            prods.append([h, [["V", h], ["T", rng.randrange(2)]]])        # neither nullable nor generating by itself
    for h in [0] + [rng.randrange(nv) for _ in range(rng.randint(1, 2))]:
        x = ["V", rng.randrange(1, nv)]
        y = ["T", rng.randrange(2)] if rng.random() < 0.6 else ["V", rng.randrange(1, nv)]
        body = rng.choice([[x, x, y], [y, x, x], [x, y, x], [x, x, x, y], [x, x]])
        if [h, [list(z) for z in body]] not in prods:
            prods.append([h, [list(z) for z in body]])
    if rng.random() < 0.5:
        prods.append([0, [["V", rng.randrange(1, nv)]]])
    rng.shuffle(prods)
    c = {"nv": nv, "nt": 2, "start": 0, "prods": prods, "vc": rng.choice(["str", "lower"])}
    if rng.random() < 0.5:
        c["shuffle"] = rng.randrange(1 << 30)
    return c


def two_route_case(rng):
    """a variable that is generating through one production and nullable only through another one made of
    variables (the shape on which a drifting impact counter shows), under a start symbol that depends on it"""
    prods = [[0, [["V", 1]]], [1, [["V", 2]]], [1, [["V", 3], ["V", 4]]], [2, [["T", 1]]], [3, []], [4, []]]
    r = rng.random()
    if r < 0.3:
        prods[0] = [0, [["V", 1], ["V", 1]]]
    elif r < 0.5:
        prods.append([0, [["T", 0], ["V", 0]]])
    if rng.random() < 0.4:
        prods.append([4, [["T", 0]]])
    if rng.random() < 0.3:
        prods.append([3, [["V", 4], ["V", 4]]])
    rng.shuffle(prods)
    c = {"nv": 5, "nt": 2, "start": 0, "prods": prods, "vc": rng.choice(["str", "lower"])}
    if rng.random() < 0.5:
        c["shuffle"] = rng.randrange(1 << 30)
    return c


def _many(c, i, var):
    return ("V%d" % i if i else "S") if var else "t%d" % i


def vval(c, i):
    if c["vc"] == "manyterms":
        return _many(c, i, True)
    if c["vc"] == "inject":
        # order injection: the harness chooses the hash, hence the iteration order of the variable set
        from vf.values import K
        perm = c.get("perm") or list(range(8))
        return K("V%d" % i if i else "S", perm[i % len(perm)])
    names = VARS[c["vc"]]
    return names[i] if i < len(names) else "V%d" % i


def tval(c, j):
    if c["vc"] == "manyterms":
        return _many(c, j, False)
    names = TERMS["str" if c["vc"] == "inject" else c["vc"]]
    return names[j] if j < len(names) else "t%d" % j


def build(c):
    from pyformlang.cfg import CFG, Production, Variable, Terminal
    prods = []
    for h, body in c["prods"]:
        prods.append(Production(Variable(vval(c, h)),
                                [Variable(vval(c, x[1])) if x[0] == "V" else Terminal(tval(c, x[1])) for x in body]))
    if "shuffle" in c:
        random.Random(c["shuffle"]).shuffle(prods)
    start = None if c["start"] is None else Variable(vval(c, c["start"]))
    kw = {}
    if c.get("declare"):
        kw["variables"] = {Variable(vval(c, i)) for i in range(c["nv"])}
        kw["terminals"] = {Terminal(tval(c, j)) for j in range(c["nt"])}
    return CFG(start_symbol=start, productions=set(prods) if c.get("as_set", True) else prods, **kw)


def ref_of_case(c):
    """reference grammar straight from the case (not through the library)"""
    from vf.ref.cfg import Grammar
    prods = [(vval(c, h), tuple(("V", vval(c, x[1])) if x[0] == "V" else ("T", tval(c, x[1])) for x in body))
             for h, body in c["prods"]]
    return Grammar(prods, None if c["start"] is None else vval(c, c["start"]))


def words_over(terms, N, foreign=True):
    al = list(terms) + (["zz_foreign"] if foreign else [])
    for k in range(N + 1):
        for w in itertools.product(al, repeat=k):
            yield w


def exhaustive_cases(max_prods=3):
    """all grammars with 2 variables, 2 terminals, <= max_prods distinct productions of body length <= 2"""
    syms = [["V", 0], ["V", 1], ["T", 0], ["T", 1]]
    bodies = [[]] + [[s] for s in syms] + [[s, t] for s in syms for t in syms]
    allp = [[h, b] for h in (0, 1) for b in bodies]
    for k in range(1, max_prods + 1):
        for combo in itertools.combinations(range(len(allp)), k):
            yield {"nv": 2, "nt": 2, "start": 0, "prods": [allp[i] for i in combo], "vc": "str"}


def exhaustive_count(max_prods=3):
    import math
    n = 2 * 21
    return sum(math.comb(n, k) for k in range(1, max_prods + 1))
