"""FST workload generator."""
import random

STATES = {"str": ["q0", "q1", "q2", "q3"], "int": [0, 1, 2, 3], "short": ["q", "q0", "q1", "q00"],
          "graph": ["q0", "starting_q0", "x y", 7], "mixed": [1, "1", 2, "2"]}
INS = ["a", "b"]
OUTS = ["x", "y", "xy", 1, "1"]      # ["x","y"] vs ["xy"], [1] vs ["1"]: equal when concatenated as text


def random_case(rng, max_states=3, max_trans=6, vcs=None, allow_eps_out=False):
    n = rng.randint(1, max_states)
    trans = []
    for _ in range(rng.randint(1, max_trans)):
        a = -1 if rng.random() < 0.25 else rng.randrange(2)
        out = [rng.randrange(len(OUTS)) for _ in range(rng.choice([0, 1, 1, 2]))]
        t = [rng.randrange(n), a, rng.randrange(n), out]
        if t not in trans:
            trans.append(t)
    if rng.random() < 0.2:
        # a parallel transition (same source, input and target) writing the same letters in another order or number
        s_, a_, t_, out = rng.choice(trans)
        out2 = rng.choice([out[::-1], out + out[:1], out + out[-1:], out[1:], out + [rng.randrange(2)]])
        if len(out) < 2 and rng.random() < 0.5:
            k_ = rng.randrange(2)
            out, out2 = [k_, 1 - k_], [1 - k_, k_]
            trans.append([s_, a_, t_, out])
        if [s_, a_, t_, out2] not in trans:
            trans.append([s_, a_, t_, out2])
    starts = sorted(set(rng.randrange(n) for _ in range(rng.choice([1, 1, 2]))))
    finals = [s for s in range(n) if rng.random() < 0.5]
    c = {"n": n, "trans": trans, "starts": starts, "finals": finals,
         "vc": rng.choice(vcs or ["str", "int", "short", "inject", "mixed"])}
    if c["vc"] == "inject":
        c["perm"] = rng.sample(range(4), 4)
        if rng.random() < 0.2:
            c["perm"] = [rng.randrange(2) for _ in range(4)]        # different keys, equal hashes
    if rng.random() < 0.5:
        c["shuffle"] = rng.randrange(1 << 30)
    if rng.random() < 0.15:
        c["form"] = "bulk"
    return c


def hub_case(rng):
    """several states that are both initial and final and are left through epsilon transitions only (the shape of a
    union of starred transducers), loops through inner states back to a hub"""
    hubs = rng.randint(1, 2)
    n = hubs + rng.randint(1, 2)
    trans = []
    for h in range(hubs):
        inner = rng.randrange(hubs, n)
        trans.append([h, -1, inner, [rng.randrange(len(OUTS))] if rng.random() < 0.3 else []])
        back = rng.randrange(hubs) if rng.random() < 0.3 else h
        trans.append([inner, rng.randrange(2), back, [rng.randrange(len(OUTS)) for _ in range(rng.choice([0, 1, 1]))]])
    for _ in range(rng.randint(0, 2)):
        t = [rng.randrange(hubs, n), rng.randrange(2), rng.randrange(n), [rng.randrange(len(OUTS))]]
        if t not in trans:
            trans.append(t)
    c = {"n": n, "trans": trans, "starts": list(range(hubs)), "finals": list(range(hubs)),
         "vc": rng.choice(["str", "int", "short", "inject"])}
    if c["vc"] == "inject":
        c["perm"] = rng.sample(range(4), 4)
    if rng.random() < 0.5:
        c["shuffle"] = rng.randrange(1 << 30)
    return c


def sval(c, i):
    if c["vc"] == "inject":
        from vf.values import K
        perm = c.get("perm") or [0, 1, 2, 3]
        return K("q%d" % i, perm[i % len(perm)])
    return STATES[c["vc"]][i]


def build(c):
    from pyformlang.fst import FST
    f = FST()
    tr = list(c["trans"])
    if "shuffle" in c:
        random.Random(c["shuffle"]).shuffle(tr)
    ins = c.get("ins") or INS
    outs = c.get("outs") or OUTS
    if c.get("form") == "bulk":
        f.add_transitions([(sval(c, p), "epsilon" if a < 0 else ins[a], sval(c, q), [outs[o] for o in out])
                           for p, a, q, out in tr])
        tr = []
    for p, a, q, out in tr:
        f.add_transition(sval(c, p), "epsilon" if a < 0 else ins[a], sval(c, q), [outs[o] for o in out])
    for s in c["starts"]:
        f.add_start_state(sval(c, s))
    for s in c["finals"]:
        f.add_final_state(sval(c, s))
    return f


def ref_of_case(c):
    """the reference transducer straight from the case record (what the caller added)"""
    from vf.ref import fst as rf
    ins = c.get("ins") or INS
    outs = c.get("outs") or OUTS
    trans = [(sval(c, p), rf.EPS if a < 0 else ins[a], sval(c, q), tuple(outs[o] for o in out))
             for p, a, q, out in c["trans"]]
    return rf.FST([], [sval(c, s) for s in c["starts"]], [sval(c, s) for s in c["finals"]], trans)
