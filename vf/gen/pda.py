"""PDA workload generator."""
import random

STATES = {"str": ["q0", "q1", "q2", "q3"], "int": list(range(16)),
          "reserved": ["#STARTTOFINAL#", "#ENDTOFINAL#", "#STARTEMPTYS#", "#ENDEMPTYS#0"],
          "tuple": [("p", 0), ("p", 1), (0, 0), (1,)], "mixed": [1, "1", 2, "2"],
          # a bare fresh name of the library next to the same name with a numeric suffix (any numbering scheme of fresh names)
          "reservednum": ["#STARTTOFINAL#", "#STARTTOFINAL#2", "#STARTTOFINAL#0", "#STARTTOFINAL#3"]}
STACK = {"str": ["Z", "X", "Y", "W"], "int": [0, 1, 2, 3],
         "reserved": ["#BOTTOMTOFINAL#", "#BOTTOMEMPTYS#", "#BOTTOMEMPTYS#0", "#BOTTOMTOFINAL#0"],
         "tuple": ["Z", "X", "Y", "W"], "mixed": [0, "0", 1, "1"],
         "reservednum": ["#BOTTOMTOFINAL#", "#BOTTOMTOFINAL#2", "#BOTTOMTOFINAL#0", "#BOTTOMTOFINAL#3"]}
INPUTS = ["a", "b"]
VCS = ["str", "str", "int", "reserved", "tuple", "inject", "mixed"]


def random_case(rng, max_states=3, max_stack=2, max_trans=6, max_push=3, vcs=None):
    n = rng.randint(1, max_states)
    m = rng.randint(1, max_stack)
    k = rng.randint(1, 2)
    trans = []
    for _ in range(rng.randint(1, max_trans)):
        a = -1 if rng.random() < 0.3 else rng.randrange(k)
        push = [rng.randrange(m) for _ in range(rng.choice([0, 0, 1, 1, 2, 2, 3, 3, 3][:2 * max_push + (3 if max_push >= 3 else 1)]))]
        t = [rng.randrange(n), a, rng.randrange(m), rng.randrange(n), push]
        if t not in trans:
            trans.append(t)
    finals = [s for s in range(n) if rng.random() < 0.4]
    c = {"n": n, "m": m, "k": k, "trans": trans, "start": 0 if rng.random() < 0.8 else rng.randrange(n),
         "zstart": 0, "finals": finals, "vc": rng.choice(vcs or VCS)}
    if rng.random() < 0.5:
        c["shuffle"] = rng.randrange(1 << 30)
    if c["vc"] == "inject":
        c["perm"] = rng.sample(range(4), 4)
        c["zperm"] = rng.sample(range(4), 4)
        if rng.random() < 0.2:
            c["perm"] = [rng.randrange(2) for _ in range(4)]        # different keys, equal hashes
            c["zperm"] = [rng.randrange(2) for _ in range(4)]
    r_ = rng.random()
    if r_ < 0.15:
        c["form"] = "bulk"
    elif r_ < 0.3:
        c["form"] = "ctor"
    if rng.random() < 0.3:
        c["eps_form"] = rng.choice([1, 2])
    return c


def path_case(rng, vcs=None):
    """three or four states on a line: symbols are pushed in the first ones, popped in the later ones and the stack
    runs empty in the LAST state only, which no transition leaves; the transitions are given back to front or in a
    random order, with a few loops and side moves"""
    n = rng.randint(3, 4)
    m = 2
    k = 2
    trans = [[0, rng.randrange(k), 0, 1, [1, 0]]]
    if rng.random() < 0.5:
        trans.append([1, rng.randrange(k), 1, 1, [1, 1]])
    if n == 3:
        trans.append([1, rng.randrange(k), 1, 1, []] if rng.random() < 0.5 else [1, -1, 1, 1, []])
        trans.append([1, -1 if rng.random() < 0.5 else rng.randrange(k), 0, 2, []])
    else:
        trans.append([1, rng.randrange(k), 1, 2, []])
        trans.append([2, rng.randrange(k), 1, 2, []])
        trans.append([2, -1 if rng.random() < 0.5 else rng.randrange(k), 0, 3, []])
    for _ in range(rng.randint(0, 2)):
        t = [rng.randrange(n - 1), rng.randrange(k), rng.randrange(m), rng.randrange(n - 1),
             [rng.randrange(m) for _ in range(rng.choice([0, 1, 1, 2]))]]
        if t not in trans:
            trans.append(t)
    r_ = rng.random()
    if r_ < 0.5:
        trans.reverse()
    c = {"n": n, "m": m, "k": k, "trans": trans, "start": 0, "zstart": 0,
         "finals": [s for s in range(n) if rng.random() < 0.3], "vc": rng.choice(vcs or ["str", "str", "int", "reserved", "tuple"])}
    if r_ >= 0.7:
        c["shuffle"] = rng.randrange(1 << 30)
    return c


def push_chain_case(rng, vcs=None):
    """one transition pushes three (or two) symbols at once; each of them is popped in a state of its own choice, so
    the conversion to a grammar has to guess the intermediate states of the push correctly"""
    n = rng.randint(2, 4)
    depth = rng.choice([2, 3, 3, 3])
    m = depth + 1
    k = 2
    ent = rng.randrange(n)
    trans = [[0, -1 if rng.random() < 0.6 else rng.randrange(k), 0, ent, list(range(1, depth + 1))]]
    cur = ent
    for sym in range(1, depth + 1):
        nxt = rng.randrange(n)
        if rng.random() < 0.3:
            # the symbol is first REPLACED (by itself or by the bottom symbol's neighbour) in a state that never pops,
            # and popped one step later
            mid = rng.randrange(n)
            trans.append([cur, rng.randrange(k), sym, mid, [sym]])
            cur = mid
        trans.append([cur, -1 if rng.random() < 0.2 else rng.randrange(k), sym, nxt, []])
        cur = nxt
    for _ in range(rng.randint(0, 2)):
        t = [rng.randrange(n), rng.randrange(k), rng.randrange(m), rng.randrange(n),
             [rng.randrange(m) for _ in range(rng.choice([0, 0, 1]))]]
        if t not in trans:
            trans.append(t)
    c = {"n": n, "m": m, "k": k, "trans": trans, "start": 0, "zstart": 0,
         "finals": [s for s in range(n) if rng.random() < 0.3], "vc": rng.choice(vcs or VCS)}
    if rng.random() < 0.6:
        c["shuffle"] = rng.randrange(1 << 30)
    if c["vc"] == "inject":
        c["perm"] = rng.sample(range(4), 4)
        c["zperm"] = rng.sample(range(4), 4)
    if rng.random() < 0.3:
        c["eps_form"] = rng.choice([1, 2])
    return c


def digit_clash_case(rng):
    """thirteen states; two pop transitions whose (state, stack symbol, state) numbers read the same when written
    without separators - (10+d, 1, k) and (1, d, 10+k) - on two different accepting paths"""
    n = 13
    d, k = rng.randrange(2), rng.randrange(3)
    s0 = rng.choice([x for x in range(2, 10) if x != k])
    la, lb = rng.sample([0, 1], 2)
    trans = [[s0, -1, 0, 1, [d]],                 # path B: replace the start symbol by d, go to state 1
             [1, lb, d, 10 + k, []],              #         pop d in state 1, reading lb, ending in state 10+k
             [s0, la, 0, 10 + d, [1]],            # path A: read la, replace by 1, go to state 10+d
             [10 + d, la, 1, k, []]]              #         pop 1 in state 10+d, reading la, ending in state k
    used = {s0, 1, 10 + k, 10 + d, k}
    for x in range(n):
        if x not in used:
            trans.append([x, 0, 0, x, [0]])      # every state number exists (unreachable loops): positions = numbers
    c = {"n": n, "m": 2, "k": 2, "trans": trans, "start": s0, "zstart": 0, "finals": [], "vc": "int"}
    if rng.random() < 0.5:
        c["shuffle"] = rng.randrange(1 << 30)
    return c


def many_states_case(rng):
    """eleven to thirteen states (two-digit state numbers in anything numbered per state), few transitions, pushes of
    at most two symbols, mostly epsilon moves so that the accepted words stay short"""
    n = rng.randint(11, 13)
    m = 2
    trans = []
    cur = 0
    order = list(range(1, n))
    rng.shuffle(order)
    path = [0] + order[:rng.randint(3, 6)]
    # a path from the start state that pushes once and pops twice, through far-apart state numbers
    kinds = ["push"] + ["keep"] * (len(path) - 3) + ["pop", "pop"]
    rng.shuffle(kinds)
    depth = 1
    stack = [0]
    for i in range(len(path)):
        nxt = path[i + 1] if i + 1 < len(path) else rng.randrange(n)
        k = kinds[i] if i < len(kinds) else "keep"
        top = stack[-1] if stack else 0
        a = rng.randrange(2) if rng.random() < 0.35 else -1
        if k == "push":
            y = rng.randrange(m)
            trans.append([path[i], a, top, nxt, [y, top]])
            stack.append(y)
        elif k == "pop" and stack:
            trans.append([path[i], a, top, nxt, []])
            stack.pop()
        else:
            trans.append([path[i], a, top, nxt, [top]])
    for _ in range(rng.randint(2, 6)):
        t = [rng.randrange(n), rng.randrange(2) if rng.random() < 0.5 else -1, rng.randrange(m), rng.randrange(n),
             [rng.randrange(m) for _ in range(rng.choice([0, 1, 1, 2]))]]
        if t not in trans:
            trans.append(t)
    c = {"n": n, "m": m, "k": 2, "trans": trans, "start": 0, "zstart": 0,
         "finals": [s for s in range(n) if rng.random() < 0.15], "vc": "int"}
    if rng.random() < 0.5:
        c["shuffle"] = rng.randrange(1 << 30)
    return c


def sval(c, i):
    if c["vc"] == "many":
        return i
    if c["vc"] == "inject":
        from vf.values import K
        perm = c.get("perm") or [0, 1, 2, 3]
        return K("q%d" % i, perm[i % len(perm)])
    return STATES[c["vc"]][i]


def many_stack_case(rng, m=300):
    """two states and three hundred stack symbols: a pushes some X_i, an even i is popped by b; the pops of state 1
    (never reached with an X on the stack) are there to be confused with"""
    trans = []
    for i in range(1, m):
        trans.append([0, 0, 0, 0, [i]])
        if i % 2 == 0:
            trans.append([0, 1, i, 1, []])
        trans.append([1, 0, i, 1, []])
    return {"n": 2, "m": m, "k": 2, "trans": trans, "start": 0, "zstart": 0, "finals": [1], "vc": "many"}


def zval(c, i):
    if c["vc"] == "many":
        return "Z" if i == 0 else "X%d" % i
    if c["vc"] == "inject":
        from vf.values import K
        perm = c.get("zperm") or [0, 1, 2, 3]
        return K("Z%d" % i, perm[i % len(perm)])
    return STACK[c["vc"]][i]


def build(c):
    from pyformlang.pda import PDA
    p = PDA(start_state=sval(c, c["start"]), start_stack_symbol=zval(c, c["zstart"]),
            final_states={sval(c, f) for f in c["finals"]})
    tr = list(c["trans"])
    if "shuffle" in c:
        random.Random(c["shuffle"]).shuffle(tr)
    if c.get("form") == "ctor":
        # everything handed to the constructor: sets of raw values and a ready-made transition function whose State /
        # Symbol / StackSymbol objects were created separately (equal to, but not the same objects as, the PDA's own)
        from pyformlang.pda import State, Symbol as PSym, StackSymbol, Epsilon as PEps
        from pyformlang.pda.transition_function import TransitionFunction
        tf = TransitionFunction()
        for q, a, X, r, push in tr:
            tf.add_transition(State(sval(c, q)), PEps() if a < 0 else PSym(INPUTS[a]), StackSymbol(zval(c, X)),
                              State(sval(c, r)), [StackSymbol(zval(c, y)) for y in push])
        sts = {sval(c, q) for q, _, _, _, _ in tr} | {sval(c, r) for _, _, _, r, _ in tr} | \
            {sval(c, c["start"])} | {sval(c, f) for f in c["finals"]}
        zs = {zval(c, X) for _, _, X, _, _ in tr} | {zval(c, y) for t in tr for y in t[4]} | {zval(c, c["zstart"])}
        return PDA(states=sts, input_symbols={INPUTS[a] for _, a, _, _, _ in tr if a >= 0}, stack_alphabet=zs,
                   transition_function=tf, start_state=sval(c, c["start"]), start_stack_symbol=zval(c, c["zstart"]),
                   final_states={sval(c, f) for f in c["finals"]})
    from pyformlang.pda import Epsilon, Symbol
    # the three accepted spellings of an epsilon move: the text, the Epsilon object, a Symbol carrying the text
    eps = {1: Epsilon(), 2: Symbol("epsilon")}.get(c.get("eps_form", 0), "epsilon")
    if c.get("form") == "bulk":
        p.add_transitions([(sval(c, q), eps if a < 0 else INPUTS[a], zval(c, X), sval(c, r),
                            [zval(c, y) for y in push]) for q, a, X, r, push in tr])
        return p
    for q, a, X, r, push in tr:
        p.add_transition(sval(c, q), eps if a < 0 else INPUTS[a], zval(c, X), sval(c, r),
                         [zval(c, y) for y in push])
    return p


def ref_of_case(c):
    """the reference PDA straight from the case record (what the caller added)"""
    from vf.ref import pda as rp
    trans = [(sval(c, q), rp.EPS if a < 0 else INPUTS[a], zval(c, X), sval(c, r), tuple(zval(c, y) for y in push))
             for q, a, X, r, push in c["trans"]]
    return rp.PDA(trans, sval(c, c["start"]), zval(c, c["zstart"]), [sval(c, f) for f in c["finals"]])
