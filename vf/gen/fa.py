"""Finite-automaton workload generators: canonical cases, builders, derived pairs."""
import itertools
import random

from vf import values

EPSID = -1


def random_case(rng, max_states=5, max_syms=3, kinds=("enfa", "nfa", "dfa"), vcs=None,
                token=False):
    kind = rng.choice(kinds)
    n = rng.randint(0 if rng.random() < 0.03 else 1, max_states)
    k = rng.randint(1, max_syms)
    dens = rng.choice([0.15, 0.3, 0.5])
    p_eps = rng.choice([0.0, 0.15, 0.3]) if kind == "enfa" else 0.0
    trans = []
    for p in range(n):
        for a in range(k):
            if kind == "dfa":
                if rng.random() < min(0.9, dens * 2):
                    trans.append([p, a, rng.randrange(n)])
            else:
                for q in range(n):
                    if rng.random() < dens:
                        trans.append([p, a, q])
        if p_eps:
            for q in range(n):
                if rng.random() < p_eps:
                    trans.append([p, EPSID, q])
    if kind == "dfa":
        start = [rng.randrange(n)] if n and rng.random() < 0.93 else []
    else:
        r = rng.random()
        if r < 0.07 or not n:
            start = []
        elif r < 0.7:
            start = [rng.randrange(n)]
        else:
            start = sorted(set(rng.randrange(n) for _ in range(rng.randint(2, 3))))
    pf = rng.choice([0.2, 0.4, 0.6])
    final = [s for s in range(n) if rng.random() < pf]
    extra = [k] if rng.random() < 0.1 else []
    vc = rng.choice(vcs or values.FA_VALUE_CLASSES)
    case = {"kind": kind, "n": n, "k": k, "start": start, "final": final, "trans": trans,
            "extra": extra, "vc": vc, "token": bool(token)}
    if vc == "inject":
        perm = list(range(max(n, 1)))
        rng.shuffle(perm)
        sperm = list(range(k + 1))
        rng.shuffle(sperm)
        if rng.random() < 0.2:
            # different keys with EQUAL hashes (anything keyed by hash alone conflates them)
            perm = [rng.randrange(2) for _ in perm]
            sperm = [rng.randrange(2) for _ in sperm]
        case["perm"] = perm
        case["sperm"] = sperm
    if rng.random() < 0.5:
        case["shuffle"] = rng.randrange(1 << 30)
    if kind == "enfa" and rng.random() < 0.06:
        # an automaton without any input symbol: every transition is an epsilon move
        case["trans"] = sorted([p, EPSID, q] for p, q in {(t[0], t[2]) for t in trans})
        case["extra"] = []
        case["eps_only"] = True
    if rng.random() < 0.25 and trans:
        # an edit script applied through the public mutators after the first round of queries
        edits = []
        for _ in range(rng.randint(1, 3)):
            r = rng.random()
            if r < 0.5:
                edits.append(["rm_t"] + list(rng.choice(case["trans"])))
            elif r < 0.65 and case["final"]:
                edits.append(["rm_f", rng.choice(case["final"])])
            elif r < 0.75 and case["start"]:
                edits.append(["rm_s", rng.choice(case["start"])])
            elif r < 0.85:
                edits.append(["add_s", rng.randrange(max(n, 1))])
            elif kind != "dfa" or rng.random() < 0.6:
                # on a DFA this may be a second successor for (state, symbol), which the library refuses
                sym = EPSID if (kind == "enfa" and rng.random() < 0.4) else rng.randrange(k)
                edits.append(["add_t", rng.randrange(max(n, 1)), sym, rng.randrange(max(n, 1))])
            else:
                edits.append(["add_f", rng.randrange(max(n, 1))])
        if rng.random() < 0.3 and n >= 1:
            # an edit that keeps every count (states, transitions, final states): one transition moved, or the
            # final marking moved to another state
            if rng.random() < 0.7 or not case["final"]:
                t = rng.choice(case["trans"])
                edits = [["rm_t"] + list(t), ["add_t", rng.randrange(n), t[1] if t[1] != EPSID or kind == "enfa" else 0,
                                              rng.randrange(n)]]
            else:
                edits = [["rm_f", rng.choice(case["final"])], ["add_f", rng.randrange(n)]]
        case["edits"] = edits
    if rng.random() < 0.25:
        case["eps_form"] = rng.choice([1, 3])            # Symbol("epsilon") is not an accepted spelling for automata
    r = rng.random()
    if r < 0.15:
        case["form"] = "ctor"          # states / symbols / start / finals given to the constructor
    elif r < 0.3:
        case["form"] = "bulk"          # add_transitions(list)
    return case


def apply_edits(fa, case, on_refused=None):
    """the edit script of a case through remove_transition / remove_*_state / add_*; an edit the library refuses
    with an exception must leave the automaton as it was (on_refused(edit, exception) is told otherwise)"""
    from vf import core, extract
    for e in case.get("edits", ()):
        before = None
        if on_refused is not None:
            with core.oracle_mode():
                before = extract.fa(fa).key()
        try:
            if e[0] == "rm_t":
                fa.remove_transition(sval(case, e[1]), aval(case, e[2]), sval(case, e[3]))
            elif e[0] == "rm_f":
                fa.remove_final_state(sval(case, e[1]))
            elif e[0] == "rm_s":
                fa.remove_start_state(sval(case, e[1]))
            elif e[0] == "add_s":
                fa.add_start_state(sval(case, e[1]))
            elif e[0] == "add_t":
                fa.add_transition(sval(case, e[1]), aval(case, e[2]), sval(case, e[3]))
            elif e[0] == "add_f":
                fa.add_final_state(sval(case, e[1]))
        except Exception as exc:      # noqa
            if on_refused is not None:
                with core.oracle_mode():
                    if extract.fa(fa).key() != before:
                        on_refused(e, exc)


def random_loop_case(rng, max_states=4, token=True, vcs=None):
    """a chain start -> ... -> final with an edge from the final state back to the start state (epsilon or a
    symbol), optionally self loops and chords: the shapes of the two-state closed form of to_regex"""
    n = rng.randint(2, max_states)
    k = rng.randint(1, 3)
    trans = [[i, EPSID if rng.random() < 0.3 else rng.randrange(k), i + 1] for i in range(n - 1)]
    back = EPSID if rng.random() < 0.6 else rng.randrange(k)
    trans.append([n - 1, back, 0])
    if rng.random() < 0.3:
        trans.append([rng.randrange(n), rng.randrange(k), rng.randrange(n)])
    if rng.random() < 0.3:
        s = rng.randrange(n)
        trans.append([s, rng.randrange(k), s])
    seen = []
    for t in trans:
        if t not in seen:
            seen.append(t)
    vc = rng.choice(vcs or ["int", "str", "merged"])
    case = {"kind": "enfa", "n": n, "k": k, "start": [0], "final": [n - 1], "trans": seen, "extra": [], "vc": vc,
            "token": token, "loop": True}
    if rng.random() < 0.5:
        case["shuffle"] = rng.randrange(1 << 30)
    return case


def random_dag_case(rng, max_states=5, max_syms=2, vcs=None):
    """acyclic by construction (edges go from lower to higher ids): diamonds of symbol and eps edges, so that
    the same state is reached along several branches"""
    n = rng.randint(2, max_states)
    k = rng.randint(1, max_syms)
    p_eps = rng.choice([0.2, 0.4, 0.6])
    dens = rng.choice([0.3, 0.5, 0.8])
    trans = []
    for p in range(n):
        for q in range(p + 1, n):
            if rng.random() < dens:
                a = EPSID if rng.random() < p_eps else rng.randrange(k)
                trans.append([p, a, q])
                if rng.random() < 0.2:
                    b = EPSID if a != EPSID else rng.randrange(k)
                    trans.append([p, b, q])
    start = [0] if rng.random() < 0.7 else sorted(set([0, rng.randrange(n)]))
    final = [s for s in range(n) if rng.random() < 0.4]
    vc = rng.choice(vcs or values.FA_VALUE_CLASSES)
    case = {"kind": "enfa", "n": n, "k": k, "start": start, "final": final, "trans": trans, "extra": [],
            "vc": vc, "token": False, "dag": True}
    if vc == "inject":
        perm = list(range(n))
        rng.shuffle(perm)
        sperm = list(range(k + 1))
        rng.shuffle(sperm)
        case["perm"] = perm
        case["sperm"] = sperm
    if rng.random() < 0.5:
        case["shuffle"] = rng.randrange(1 << 30)
    if rng.random() < 0.15 and n >= 2:
        # one back edge: a single cycle in an otherwise acyclic graph
        q = rng.randrange(1, n)
        case["trans"].append([q, EPSID if rng.random() < 0.5 else rng.randrange(k), rng.randrange(q + 1)])
        case["dag"] = False
    return case


def sval(case, i):
    return values.state_value(case["vc"], i, case.get("perm"))


def aval(case, j):
    if j == EPSID:
        f = case.get("eps_form", 0)
        if f:
            from pyformlang.finite_automaton import Epsilon, Symbol
            return [None, Epsilon(), Symbol("epsilon"), "\u025b"][f]     # object, Symbol with the text, the letter
        return "epsilon"
    if case.get("manysyms"):
        return j                            # large alphabets: the index itself (ints iterate in numeric order)
    if case["vc"] == "inject" and not case.get("token"):
        sp = case.get("sperm")
        return values.K("y%d" % j, sp[j] if sp and j < len(sp) else j)
    return values.symbol_value(case["vc"], j, case.get("token", False))


def build(case):
    """construct the library automaton by public API calls in the case's construction order"""
    from pyformlang.finite_automaton import (EpsilonNFA, NondeterministicFiniteAutomaton,
                                             DeterministicFiniteAutomaton)
    cls = {"enfa": EpsilonNFA, "nfa": NondeterministicFiniteAutomaton,
           "dfa": DeterministicFiniteAutomaton}[case["kind"]]
    ops = []
    for p, a, q in case["trans"]:
        ops.append(("t", p, a, q))
    for s in case["start"]:
        ops.append(("s", s))
    for s in case["final"]:
        ops.append(("f", s))
    for a in case.get("extra", ()):
        ops.append(("y", a))
    if "shuffle" in case:
        random.Random(case["shuffle"]).shuffle(ops)
    form = case.get("form")
    if form == "ctor":
        starts = [sval(case, x[1]) for x in ops if x[0] == "s"]
        finals = {sval(case, x[1]) for x in ops if x[0] == "f"}
        syms = {aval(case, x[2]) for x in ops if x[0] == "t" and x[2] != EPSID} | \
               {aval(case, x[1]) for x in ops if x[0] == "y"}
        declared = {sval(case, i) for i in range(case["n"]) if i % 2 == 0}     # some states only, the rest is implied
        tf = None
        tlist = [(sval(case, x[1]), aval(case, x[2]), sval(case, x[3])) for x in ops if x[0] == "t"]
        if case.get("shuffle", 0) % 2 == 0:
            # a ready-made transition function object handed to the constructor
            from pyformlang.finite_automaton import (State, Symbol, Epsilon, TransitionFunction,
                                                     NondeterministicTransitionFunction)
            tf = TransitionFunction() if case["kind"] == "dfa" else NondeterministicTransitionFunction()
            try:
                for x in ops:
                    if x[0] == "t":
                        tf.add_transition(State(sval(case, x[1])),
                                          Epsilon() if x[2] == EPSID else Symbol(aval(case, x[2])),
                                          State(sval(case, x[3])))
                tlist = []
            except Exception:      # noqa  (a refused transition: fall back to the mutators)
                tf = None
                tlist = [(sval(case, x[1]), aval(case, x[2]), sval(case, x[3])) for x in ops if x[0] == "t"]
            if tf is not None:
                declared = declared | {p for p, _, _ in [(sval(case, x[1]), 0, 0) for x in ops if x[0] == "t"]} | \
                    {sval(case, x[3]) for x in ops if x[0] == "t"}
        if case["kind"] == "dfa":
            fa = cls(states=declared, input_symbols=syms, transition_function=tf,
                     start_state=starts[0] if starts else None, final_states=finals)
            for x in starts[1:]:
                fa.add_start_state(x)
        else:
            fa = cls(states=declared, input_symbols=syms, transition_function=tf, start_state=set(starts),
                     final_states=finals)
        if tlist:
            fa.add_transitions(tlist)
        return fa
    fa = cls()
    if form == "bulk":
        fa.add_transitions([(sval(case, x[1]), aval(case, x[2]), sval(case, x[3])) for x in ops if x[0] == "t"])
        ops = [x for x in ops if x[0] != "t"]
    for op in ops:
        if op[0] == "t":
            fa.add_transition(sval(case, op[1]), aval(case, op[2]), sval(case, op[3]))
        elif op[0] == "s":
            fa.add_start_state(sval(case, op[1]))
        elif op[0] == "f":
            fa.add_final_state(sval(case, op[1]))
        else:
            fa.add_symbol(aval(case, op[1]))
    return fa


def large_case(rng, kinds=("enfa", "nfa", "dfa"), vcs=("str", "int")):
    """an ordinary-sized automaton: ten to fourteen states (two-digit numbers in names and positions), a spine from the
    start state to a final state with chords, loops and a few epsilon moves, several final states; with sampled long
    words (members found by random walks, and perturbations of them)"""
    kind = rng.choice(kinds)
    n = rng.randint(10, 14)
    k = 2
    order = list(range(n))
    rng.shuffle(order)
    trans = []
    for i in range(n - 1):
        trans.append([order[i], rng.randrange(k), order[i + 1]])
    for _ in range(rng.randint(3, 8)):
        p_, q_ = rng.randrange(n), rng.randrange(n)
        a_ = EPSID if (kind == "enfa" and rng.random() < 0.25) else rng.randrange(k)
        trans.append([p_, a_, q_])
    if kind == "dfa":
        seen, det = set(), []
        for t in trans:
            if (t[0], t[1]) not in seen:
                seen.add((t[0], t[1]))
                det.append(t)
        trans = det
    uniq = []
    for t in trans:
        if t not in uniq:
            uniq.append(t)
    start = [order[0]] + ([order[rng.randrange(n)]] if kind != "dfa" and rng.random() < 0.3 else [])
    final = sorted({order[-1], order[rng.randrange(n)], order[n // 2]})
    case = {"kind": kind, "n": n, "k": k, "start": sorted(set(start)), "final": final, "trans": uniq, "extra": [],
            "vc": rng.choice(list(vcs)), "token": True, "large": True}
    if rng.random() < 0.5:
        case["shuffle"] = rng.randrange(1 << 30)
    # sampled long words: random walks that end in a final state, and one-symbol perturbations
    step = {}
    for p_, a_, q_ in uniq:
        step.setdefault(p_, []).append((a_, q_))
    longs = []
    for _ in range(30):
        cur, w = rng.choice(case["start"]), []
        for _ in range(rng.randint(4, 12)):
            if cur not in step:
                break
            a_, cur = rng.choice(step[cur])
            if a_ != EPSID:
                w.append(a_)
        longs.append(w)
        if w:
            w2 = list(w)
            w2[rng.randrange(len(w2))] = rng.randrange(k)
            longs.append(w2)
    case["long_words"] = [x for x in longs if len(x) <= 10][:40]
    return case


def word_chain_case(n=1500):
    """an epsilon-NFA for ONE word of n letters (a simple path of n+1 states, every tenth step an epsilon move)"""
    trans = []
    for i in range(n):
        trans.append([i, i % 2, i + 1])
    case = {"kind": "enfa", "n": n + 1, "k": 2, "start": [0], "final": [n], "trans": trans, "extra": [], "vc": "int",
            "token": True, "scale": "word_chain", "long_words": [[i % 2 for i in range(n)], [i % 2 for i in range(n - 1)]]}
    return case


def many_classes_case(rng, n=450, k=3):
    """a partial DFA with a few hundred pairwise inequivalent states (a counter with random chords): minimisation keeps
    more than 256 classes"""
    trans = []
    for i in range(n):
        trans.append([i, 0, (i + 1) % n])
        trans.append([i, 1, (2 * i) % n])
        if rng.random() < 0.5:
            trans.append([i, 2, rng.randrange(n)])
    finals = sorted({0} | {i for i in range(n) if rng.random() < 0.03})
    longs = [[rng.randrange(k) for _ in range(rng.randint(3, 9))] for _ in range(40)]
    return {"kind": "dfa", "n": n, "k": k, "start": [0], "final": finals, "trans": trans, "extra": [], "vc": "int",
            "token": False, "scale": "many_classes", "long_words": longs}


def many_symbols_case(rng, k=None):
    """a handful of states over 65-70 symbols, of which only those with the largest indices label transitions (the others
    are declared): the states are told apart by symbols number 64 and above only"""
    k = k or rng.randint(66, 70)
    n = rng.randint(4, 8)
    trans = []
    for i in range(n):
        for a in range(64, k):
            if rng.random() < 0.85:
                trans.append([i, a, rng.randrange(n)])
    finals = sorted({rng.randrange(n)} | {i for i in range(n) if rng.random() < 0.3})
    return {"kind": "dfa", "n": n, "k": k, "start": [0], "final": finals, "trans": trans, "extra": list(range(64)),
            "vc": "int", "token": False, "scale": "many_symbols", "manysyms": True,
            "long_words": [[rng.randrange(64, k) for _ in range(rng.randint(1, 5))] for _ in range(60)]}


def counter_case(m, vc="int"):
    """the counter modulo m over one symbol (m states), final when the count is 0"""
    return {"kind": "dfa", "n": m, "k": 1, "start": [0], "final": [0], "trans": [[i, 0, (i + 1) % m] for i in range(m)],
            "extra": [], "vc": vc, "token": True, "scale": "counter"}


def long_words(case):
    return [[aval(case, j) for j in w] for w in case.get("long_words", ())]


def ref_of_case(case):
    """the reference automaton straight from the case record (what the caller ADDED), or None when the record does
    not determine it (a DFA record with several start states or two successors for one state and symbol)"""
    from vf.ref import nfa as rn
    trans = {(sval(case, p), rn.EPS if a == EPSID else aval(case, a), sval(case, q)) for p, a, q in case["trans"]}
    if case["kind"] == "dfa":
        if len(case["start"]) > 1 or len({(p, a) for p, a, _ in case["trans"]}) != len(case["trans"]):
            return None
    return rn.NFA([], [sval(case, x) for x in case["start"]], [sval(case, x) for x in case["final"]], trans,
                  [aval(case, j) for j in case.get("extra", ())])


def words_for(case, maxlen, foreign=True):
    """all words up to maxlen over the case's alphabet plus one foreign symbol (values)"""
    syms = [aval(case, j) for j in range(case["k"])] + [aval(case, j) for j in case.get("extra", ())]
    if foreign:
        syms.append("zz_foreign")
    seen = []
    for s in syms:
        if s not in seen:
            seen.append(s)
    for k in range(maxlen + 1):
        for w in itertools.product(seen, repeat=k):
            yield list(w)


def exhaustive_enfa(n, k):
    """all eps-NFA cases with exactly n states (ids 0..n-1), k symbols: every subset of
    transitions (incl. eps, no eps self loops counted separately), start sets, final sets"""
    slots = [(p, a, q) for p in range(n) for a in list(range(k)) + [EPSID] for q in range(n)]
    for tmask in range(1 << len(slots)):
        trans = [list(slots[i]) for i in range(len(slots)) if tmask >> i & 1]
        for smask in range(1 << n):
            for fmask in range(1 << n):
                yield {"kind": "enfa", "n": n, "k": k,
                       "start": [i for i in range(n) if smask >> i & 1],
                       "final": [i for i in range(n) if fmask >> i & 1],
                       "trans": trans, "extra": [], "vc": "int", "token": False}


def exhaustive_count(n, k):
    return (1 << (n * n * (k + 1))) * (1 << n) * (1 << n)


def exhaustive_nth(n, k, idx):
    """random access into exhaustive_enfa's order (for slicing across workers)"""
    nslots = n * n * (k + 1)
    fmask = idx % (1 << n)
    idx //= (1 << n)
    smask = idx % (1 << n)
    tmask = idx // (1 << n)
    slots = [(p, a, q) for p in range(n) for a in list(range(k)) + [EPSID] for q in range(n)]
    assert tmask < (1 << nslots)
    return {"kind": "enfa", "n": n, "k": k,
            "start": [i for i in range(n) if smask >> i & 1],
            "final": [i for i in range(n) if fmask >> i & 1],
            "trans": [list(slots[i]) for i in range(nslots) if tmask >> i & 1],
            "extra": [], "vc": "int", "token": False}


# ---------------------------------------------------------------- derived pairs (reference-side)

def derive_equal(rng, case):
    """a case with the same language as `case`, obtained by a language-preserving edit
    that never calls the library"""
    c = {k: (list(map(list, v)) if k == "trans" else (list(v) if isinstance(v, list) else v))
         for k, v in case.items()}
    n, k = c["n"], c["k"]
    how = rng.choice(["unreachable", "sink", "dead", "alphabet", "epspad", "rename", "dupstart"])
    if how == "unreachable":
        c["n"] = n + 1
        for a in range(k):
            if rng.random() < 0.6 and n:
                c["trans"].append([n, a, rng.randrange(n + 1)])
        if rng.random() < 0.5:
            c["final"].append(n)
    elif how == "sink" and n:
        # explicit non-final sink receiving every missing (state, symbol)
        c["n"] = n + 1
        have = {(p, a) for p, a, q in c["trans"]}
        for p in range(n + 1):
            for a in range(k):
                if (p, a) not in have and (rng.random() < 0.8 or p == n):
                    c["trans"].append([p, a, n])
    elif how == "dead" and n:
        c["n"] = n + 1
        c["trans"].append([rng.randrange(n), rng.randrange(k), n])
        if c["kind"] == "dfa":
            # keep determinism: only if that (state, symbol) is free
            p, a, q = c["trans"][-1]
            if any(t[0] == p and t[1] == a for t in c["trans"][:-1]):
                c["trans"].pop()
    elif how == "alphabet":
        c["extra"] = list(c.get("extra", [])) + [k + 1]
    elif how == "epspad" and c["kind"] == "enfa" and n:
        # new start state with eps edges to the old start states
        c["n"] = n + 1
        for s in c["start"]:
            c["trans"].append([n, EPSID, s])
        if c["start"]:
            c["start"] = [n]
    elif how == "rename":
        vcs = [v for v in ("int", "str", "tuple") if v != c["vc"]]
        c["vc"] = rng.choice(vcs)
        c.pop("perm", None)
        c.pop("sperm", None)
        if case["vc"] in ("mixed", "tuple", "inject") or c["vc"] == "tuple":
            # symbol values depend on the value class for these: keep symbols identical
            c["vc"] = case["vc"]
    elif how == "dupstart" and c["kind"] != "dfa" and c["start"] and n:
        # a second start state that is a copy of an existing one
        s = c["start"][0]
        c["n"] = n + 1
        for p, a, q in list(c["trans"]):
            if p == s:
                c["trans"].append([n, a, q])
        if s in c["final"]:
            c["final"].append(n)
        c["start"].append(n)
    c["derived"] = how
    return c


def derive_near(rng, case):
    """a near-miss edit (language usually, not always, different)"""
    c = {k: (list(map(list, v)) if k == "trans" else (list(v) if isinstance(v, list) else v))
         for k, v in case.items()}
    n, k = c["n"], c["k"]
    how = rng.choice(["flipfinal", "dropedge", "redirect"])
    if how == "flipfinal" and n:
        s = rng.randrange(n)
        if s in c["final"]:
            c["final"].remove(s)
        else:
            c["final"].append(s)
    elif how == "dropedge" and c["trans"]:
        c["trans"].pop(rng.randrange(len(c["trans"])))
    elif how == "redirect" and c["trans"]:
        t = c["trans"][rng.randrange(len(c["trans"]))]
        t[2] = rng.randrange(n)
        if c["kind"] != "dfa":
            pass
        # remove duplicate triples
        seen = []
        for t in c["trans"]:
            if t not in seen:
                seen.append(t)
        c["trans"] = seen
    c["derived"] = how
    return c
