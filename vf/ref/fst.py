"""Reference FST semantics: the relation R(w) = set of output words.  No pyformlang import."""
EPS = "epsilon"      # the library's own input marker for epsilon moves (a plain string in its API)


class GaveUp(Exception):
    pass


class FST:
    def __init__(self, states, starts, finals, trans):
        # trans: iterable of (p, a, q, out) ; a == EPS for epsilon input ; out: tuple of output symbols
        self.trans = sorted(set((p, a, q, tuple(out)) for p, a, q, out in trans), key=repr)
        self.starts = set(starts)
        self.finals = set(finals)
        self.states = set(states) | self.starts | self.finals | {t[0] for t in self.trans} | {t[2] for t in self.trans}
        self.alpha = {t[1] for t in self.trans if t[1] != EPS}
        self.by = {}
        for p, a, q, out in self.trans:
            self.by.setdefault((p, a), []).append((q, out))
        self._memo = {}

    def key(self):
        return (tuple(self.trans), frozenset(self.starts), frozenset(self.finals), frozenset(map(repr, self.states)))

    def eps_cycle_writes(self):
        """is there a cycle of epsilon-input moves on which some output is written?"""
        adj = {}
        for p, a, q, out in self.trans:
            if a == EPS:
                adj.setdefault(p, []).append((q, bool(out)))

        def reach(s):
            seen = set()
            st = [s]
            while st:
                x = st.pop()
                for y, _ in adj.get(x, ()):
                    if y not in seen:
                        seen.add(y)
                        st.append(y)
            return seen
        for p in adj:
            for q, writes in adj[p]:
                if writes and (q == p or p in reach(q)):
                    return True
        return False

    def relation(self, w, cap=20000):
        w = tuple(w)
        if w in self._memo:
            return self._memo[w]
        seen = set()
        st = [(0, s, ()) for s in self.starts]
        out = set()
        n = len(w)
        while st:
            cfg = st.pop()
            if cfg in seen:
                continue
            seen.add(cfg)
            if len(seen) > cap:
                raise GaveUp()
            i, q, o = cfg
            if i == n and q in self.finals:
                out.add(o)
            if i < n:
                for r, oo in self.by.get((q, w[i]), ()):
                    st.append((i + 1, r, o + oo))
            for r, oo in self.by.get((q, EPS), ()):
                st.append((i, r, o + oo))
        self._memo[w] = out
        return out


def rel_union(A, B, w):
    return A.relation(w) | B.relation(w)


def rel_concat(A, B, w):
    w = tuple(w)
    out = set()
    for i in range(len(w) + 1):
        ra = A.relation(w[:i])
        if not ra:
            continue
        rb = B.relation(w[i:])
        for x in ra:
            for y in rb:
                out.add(x + y)
    return out


def rel_star(A, w):
    """R*(w); requires R(()) subset of {()} (otherwise the star is infinite: caller discards)"""
    w = tuple(w)
    n = len(w)
    S = [set() for _ in range(n + 1)]
    S[0] = {()}
    for j in range(1, n + 1):
        for i in range(j):
            if not S[i]:
                continue
            r = A.relation(w[i:j])
            for x in S[i]:
                for y in r:
                    S[j].add(x + y)
    return S[n]
