"""Exact PDA acceptance oracle (summary fixpoint, DESIGN.md appendix E.1).  No pyformlang import."""
EPS = ("\0eps",)


class PDA:
    def __init__(self, trans, q0, z0, finals, states=()):
        # trans: iterable of (q, a, X, r, gamma) ; a is EPS for epsilon ; gamma[0] is the new top
        self.trans = sorted(set((q, a, X, r, tuple(g)) for q, a, X, r, g in trans), key=repr)
        self.q0 = q0
        self.z0 = z0
        self.finals = set(finals)
        self.states = set(states) | {t[0] for t in self.trans} | {t[3] for t in self.trans}
        if q0 is not None:
            self.states.add(q0)
        self.alpha = {t[1] for t in self.trans if t[1] is not EPS}
        self._memo = {}

    def key(self):
        return (tuple(self.trans), self.q0, self.z0, frozenset(self.finals))

    def analyse(self, w):
        w = tuple(w)
        if w in self._memo:
            return self._memo[w]
        n = len(w)

        def adv(a, i):
            if a is EPS:
                return i
            if i < n and w[i] == a:
                return i + 1
            return None
        R = set()
        look = {}
        changed = True
        while changed:
            changed = False
            for (q, a, X, r, g) in self.trans:
                for i in range(n + 1):
                    i2 = adv(a, i)
                    if i2 is None:
                        continue
                    cur = {(r, i2)}
                    for Y in g:
                        nxt = set()
                        for (p, k) in cur:
                            nxt |= look.get((p, Y, k), set())
                        cur = nxt
                        if not cur:
                            break
                    for (p, k) in cur:
                        t = (q, X, i, p, k)
                        if t not in R:
                            R.add(t)
                            look.setdefault((q, X, i), set()).add((p, k))
                            changed = True
        reach = set()
        st = []
        if self.q0 is not None and self.z0 is not None:
            reach.add((self.q0, self.z0, 0))
            st.append((self.q0, self.z0, 0))
        while st:
            q, X, i = st.pop()
            for (q1, a, X1, r, g) in self.trans:
                if q1 != q or X1 != X:
                    continue
                i2 = adv(a, i)
                if i2 is None:
                    continue
                cur = {(r, i2)}
                for Y in g:
                    for (p, k) in cur:
                        t = (p, Y, k)
                        if t not in reach:
                            reach.add(t)
                            st.append(t)
                    nxt = set()
                    for (p, k) in cur:
                        nxt |= look.get((p, Y, k), set())
                    cur = nxt
        if len(self._memo) > 400:
            self._memo.clear()
        self._memo[w] = (R, reach)
        return R, reach

    def accepts_empty_stack(self, w):
        if self.q0 is None or self.z0 is None:
            return False
        R, _ = self.analyse(w)
        n = len(w)
        return any(q == self.q0 and X == self.z0 and i == 0 and j == n for (q, X, i, r, j) in R)

    def accepts_final(self, w):
        if self.q0 is None:
            return False
        n = len(w)
        if self.z0 is None:
            return n == 0 and self.q0 in self.finals
        R, reach = self.analyse(w)
        if any(q in self.finals and i == n for (q, X, i) in reach):
            return True
        return any(q == self.q0 and X == self.z0 and i == 0 and j == n and r in self.finals
                   for (q, X, i, r, j) in R)


def from_grammar(g):
    """textbook single-state CFG -> PDA (empty stack), built reference-side from a ref Grammar"""
    trans = []
    for h, b in g.prods:
        trans.append(("q", EPS, ("V", h), "q", tuple(b)))
    for t in g.terminals:
        trans.append(("q", t, ("T", t), "q", ()))
    return PDA(trans, "q", ("V", g.start) if g.start is not None else None, [])
