"""Reference emptiness for reduced-form indexed grammars (DESIGN.md appendix E.2).  No pyformlang import.
rule encodings: ('end',A,a) ('prod',A,B,f) ('cons',f,A,B) ('dup',A,B,C)"""
from collections import deque


class GaveUp(Exception):
    pass


def nonterminals(rules, start):
    N = {start}
    for r in rules:
        if r[0] == "end":
            N.add(r[1])
        elif r[0] == "prod":
            N |= {r[1], r[2]}
        elif r[0] == "cons":
            N |= {r[2], r[3]}
        else:
            N |= {r[1], r[2], r[3]}
    return N


def nonempty(rules, start="S", limit=400000):
    """antichain fixpoint: G[A] = subset-minimal obligation sets; non-empty iff {} in G[start]"""
    N = nonterminals(rules, start)
    G = {A: {frozenset([A])} for A in N}
    cons = {}
    for r in rules:
        if r[0] == "cons":
            cons.setdefault((r[1], r[2]), set()).add(r[3])
    work = [0]

    def add(A, s):
        cur = G[A]
        for t in cur:
            if t <= s:
                return False
        G[A] = {t for t in cur if not s <= t} | {s}
        return True
    changed = True
    while changed:
        changed = False
        for r in rules:
            new = set()
            if r[0] == "end":
                new.add(frozenset())
            elif r[0] == "dup":
                for g1 in G[r[2]]:
                    for g2 in G[r[3]]:
                        new.add(g1 | g2)
                        work[0] += 1
            elif r[0] == "prod":
                A, B, f = r[1], r[2], r[3]
                for gam in G[B]:
                    opts = []
                    ok = True
                    for C in gam:
                        ds = cons.get((f, C), set())
                        if not ds:
                            ok = False
                            break
                        o = set()
                        for D in ds:
                            o |= G[D]
                        opts.append(o)
                    if not ok:
                        continue
                    acc = {frozenset()}
                    for o in opts:
                        nxt = set()
                        for a in acc:
                            for b in o:
                                nxt.add(a | b)
                                work[0] += 1
                        if work[0] > limit:
                            raise GaveUp()
                        nxt = {s for s in nxt if not any(t < s for t in nxt)}
                        acc = nxt
                    new |= acc
            else:
                continue
            if work[0] > limit:
                raise GaveUp()
            for s in new:
                if add(r[1], s):
                    changed = True
        if frozenset() in G[start]:
            return True
    return frozenset() in G[start]


def nonempty_allsubsets(rules, start="S", limit=200000):
    """the plain (non-minimised) fixpoint, used to cross-check the antichain variant"""
    import itertools
    N = nonterminals(rules, start)
    G = {A: {frozenset([A])} for A in N}
    cons = {}
    for r in rules:
        if r[0] == "cons":
            cons.setdefault((r[1], r[2]), set()).add(r[3])
    work = 0
    changed = True
    while changed:
        changed = False
        for r in rules:
            new = set()
            if r[0] == "end":
                new.add(frozenset())
            elif r[0] == "dup":
                for g1 in G[r[2]]:
                    for g2 in G[r[3]]:
                        new.add(g1 | g2)
            elif r[0] == "prod":
                A, B, f = r[1], r[2], r[3]
                for gam in G[B]:
                    opts = []
                    ok = True
                    for C in gam:
                        ds = cons.get((f, C), set())
                        if not ds:
                            ok = False
                            break
                        o = set()
                        for D in ds:
                            o |= G[D]
                        opts.append(o)
                    if not ok:
                        continue
                    for combo in itertools.product(*opts):
                        work += 1
                        if work > limit:
                            raise GaveUp()
                        s = frozenset()
                        for c in combo:
                            s |= c
                        new.add(s)
            else:
                continue
            add = new - G[r[1]]
            if add:
                G[r[1]] |= add
                changed = True
    return frozenset() in G[start]


def brute_words(rules, start="S", maxsteps=10, maxstack=3, maxlen=4, cap=20000):
    """terminal words found by bounded leftmost derivation (sound witnesses of non-emptiness)"""
    init = (("N", start, ()),)
    seen = {init}
    dq = deque([(init, 0)])
    words = set()
    while dq:
        form, d = dq.popleft()
        idx = next((i for i, x in enumerate(form) if x[0] == "N"), None)
        if idx is None:
            words.add(tuple(x[1] for x in form))
            continue
        if d >= maxsteps or len(seen) > cap:
            continue
        _, A, st = form[idx]
        pre, post = form[:idx], form[idx + 1:]
        for r in rules:
            nf = None
            if r[0] == "end" and r[1] == A:
                nf = pre + ((("T", r[2]),) if r[2] != "epsilon" else ()) + post
            elif r[0] == "dup" and r[1] == A:
                nf = pre + (("N", r[2], st), ("N", r[3], st)) + post
            elif r[0] == "prod" and r[1] == A and len(st) < maxstack:
                nf = pre + (("N", r[2], (r[3],) + st),) + post
            elif r[0] == "cons" and r[2] == A and st and st[0] == r[1]:
                nf = pre + (("N", r[3], st[1:]),) + post
            if nf is not None and len(nf) <= maxlen + 2 and sum(1 for x in nf if x[0] == "T") <= maxlen \
                    and nf not in seen:
                seen.add(nf)
                dq.append((nf, d + 1))
    return words


def product(rules, dfa, start="S"):
    """reference-side product with a deterministic ref NFA object (vf.ref.nfa, partial allowed)"""
    out = []
    T = "@T"
    out.append(("end", T, "epsilon"))
    Q = sorted(dfa.states, key=repr)
    delta = {(p, a): q for p, a, q in dfa.trans}
    if not dfa.starts:
        return [("end", "@dead", "x")], "@S"
    (q0,) = tuple(dfa.starts)

    def nt(p, A, q):
        return ("P", p, A, q)
    for r in rules:
        if r[0] == "end":
            _, A, a = r
            for p in Q:
                if a == "epsilon":
                    out.append(("end", nt(p, A, p), "epsilon"))
                elif (p, a) in delta:
                    out.append(("end", nt(p, A, delta[(p, a)]), a))
        elif r[0] == "dup":
            _, A, B, C = r
            for p in Q:
                for q in Q:
                    for s in Q:
                        out.append(("dup", nt(p, A, q), nt(p, B, s), nt(s, C, q)))
        elif r[0] == "prod":
            _, A, B, f = r
            for p in Q:
                for q in Q:
                    out.append(("prod", nt(p, A, q), nt(p, B, q), f))
        else:
            _, f, A, B = r
            for p in Q:
                for q in Q:
                    out.append(("cons", f, nt(p, A, q), nt(p, B, q)))
    for f in dfa.finals:
        out.append(("dup", "@S", nt(q0, start, f), T))
    return out, "@S"
