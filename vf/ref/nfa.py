"""Reference semantics for epsilon-NFAs on plain data.  Imports nothing from pyformlang."""
import itertools


class _Eps:
    def __repr__(self):
        return "EPS"


EPS = _Eps()


class NFA:
    """states: hashables; trans: set of (p, a, q) with a is EPS for epsilon moves"""

    def __init__(self, states, starts, finals, trans, alphabet=()):
        self.trans = frozenset(trans)
        self.starts = frozenset(starts)
        self.finals = frozenset(finals)
        st = set(states) | self.starts | self.finals
        for p, a, q in self.trans:
            st.add(p)
            st.add(q)
        self.states = frozenset(st)
        self.alpha = frozenset(alphabet) | frozenset(a for _, a, _ in self.trans if a is not EPS)
        self._eps = {}
        self._step = {}
        for p, a, q in self.trans:
            if a is EPS:
                self._eps.setdefault(p, set()).add(q)
            else:
                self._step.setdefault((p, a), set()).add(q)
        self._ecl = {}

    def key(self):
        return (self.states, self.starts, self.finals, self.trans, self.alpha)

    def sample_words(self, rng, count=6, maxlen=12):
        """words read along random walks from a start state (members when the walk stops in a final state), each with
        a one-symbol perturbation: long words that exhaustive small bounds do not reach"""
        out = []
        alpha = sorted(self.alpha, key=repr)
        succ = {}
        for p, a, q in self.trans:
            succ.setdefault(p, []).append((a, q))
        for _ in range(count):
            if not self.starts:
                break
            cur = rng.choice(sorted(self.starts, key=repr))
            w = []
            for _ in range(rng.randint(5, maxlen * 2)):
                if cur not in succ or len(w) >= maxlen:
                    break
                a, cur = rng.choice(sorted(succ[cur], key=repr))
                if a is not EPS:
                    w.append(a)
            out.append(tuple(w))
            if w and alpha:
                w2 = list(w)
                w2[rng.randrange(len(w2))] = rng.choice(alpha)
                out.append(tuple(w2))
        return out

    def ecl1(self, p):
        r = self._ecl.get(p)
        if r is None:
            seen = {p}
            st = [p]
            while st:
                x = st.pop()
                for q in self._eps.get(x, ()):
                    if q not in seen:
                        seen.add(q)
                        st.append(q)
            r = self._ecl[p] = frozenset(seen)
        return r

    def ecl(self, S):
        out = set()
        for p in S:
            out |= self.ecl1(p)
        return frozenset(out)

    def step(self, S, a):
        nxt = set()
        for p in S:
            nxt |= self._step.get((p, a), set())
        return self.ecl(nxt)

    def init(self):
        return self.ecl(self.starts)

    def accepts(self, w):
        S = self.init()
        for a in w:
            S = self.step(S, a)
            if not S:
                return False
        return bool(S & self.finals)

    # ----- structure predicates -------------------------------------------
    def is_deterministic(self):
        """<=1 start, <=1 successor per (state, symbol), no eps move to another state"""
        if len(self.starts) > 1:
            return False
        if any(len(v) > 1 for v in self._step.values()):
            return False
        return all(qs <= {p} for p, qs in self._eps.items())

    def has_eps(self):
        return bool(self._eps)

    def succ(self, p):
        out = set()
        for (x, a), qs in self._step.items():
            if x == p:
                out |= qs
        out |= self._eps.get(p, set())
        return out

    def reachable(self):
        seen = set(self.starts)
        st = list(seen)
        while st:
            p = st.pop()
            for q in self.succ(p):
                if q not in seen:
                    seen.add(q)
                    st.append(q)
        return seen

    def coreachable(self):
        pred = {}
        for p, a, q in self.trans:
            pred.setdefault(q, set()).add(p)
        seen = set(self.finals)
        st = list(seen)
        while st:
            q = st.pop()
            for p in pred.get(q, ()):
                if p not in seen:
                    seen.add(p)
                    st.append(p)
        return seen

    def is_empty(self):
        return not (self.reachable() & self.finals)

    def has_reachable_cycle(self):
        """a cycle (eps edges and self loops count) among states reachable from a start state"""
        reach = self.reachable()
        color = {}
        for root in reach:
            if root in color:
                continue
            stack = [(root, iter(self.succ(root)))]
            color[root] = 1
            while stack:
                p, it = stack[-1]
                for q in it:
                    c = color.get(q)
                    if c == 1:
                        return True
                    if c is None:
                        color[q] = 1
                        stack.append((q, iter(self.succ(q))))
                        break
                else:
                    color[p] = 2
                    stack.pop()
        return False

    def useful(self):
        return self.reachable() & self.coreachable()

    def is_finite(self):
        """language finite <=> no cycle containing a non-eps edge among useful states"""
        use = self.useful()
        # SCCs on useful subgraph; infinite iff some SCC contains a symbol edge inside it
        edges = [(p, a, q) for p, a, q in self.trans if p in use and q in use]
        adj = {}
        for p, a, q in edges:
            adj.setdefault(p, set()).add(q)
        # reach closure (small graphs)
        reachm = {}
        for s in use:
            seen = set()
            st = [s]
            while st:
                x = st.pop()
                for y in adj.get(x, ()):
                    if y not in seen:
                        seen.add(y)
                        st.append(y)
            reachm[s] = seen
        for p, a, q in edges:
            if a is not EPS and (p == q or p in reachm[q]):
                return False
        return True

    def words(self, n):
        """the set of accepted words (tuples) of length <= n"""
        out = set()
        frontier = {(): self.init()}
        for k in range(n + 1):
            nxt = {}
            for w, S in frontier.items():
                if S & self.finals:
                    out.add(w)
                if k < n:
                    for a in self.alpha:
                        T = self.step(S, a)
                        if T:
                            nxt[w + (a,)] = T
            frontier = nxt
        return out

    def max_word_len(self):
        """for finite languages: longest accepted word length (or -1 if empty)"""
        use = self.useful()
        best = -1
        # DFS longest path on determinised useful part (finite => acyclic wrt symbols)
        start = frozenset(self.init() & use)
        memo = {}

        def go(S, depth):
            nonlocal best
            if depth > 64:
                return
            if S & self.finals:
                best = max(best, depth)
            for a in self.alpha:
                T = frozenset(self.step(S, a) & use)
                if T:
                    k = (T, depth + 1)
                    if k not in memo:
                        memo[k] = 1
                        go(T, depth + 1)
        go(start, 0)
        return best


def equiv(A, B, extra=("\0fresh",)):
    """None if L(A) == L(B), else a shortest distinguishing word (list)"""
    alpha = list(A.alpha | B.alpha) + list(extra)
    a0, b0 = A.init(), B.init()
    seen = {(a0, b0)}
    q = [(a0, b0, ())]
    i = 0
    while i < len(q):
        x, y, w = q[i]
        i += 1
        if bool(x & A.finals) != bool(y & B.finals):
            return list(w)
        for c in alpha:
            nx = (A.step(x, c), B.step(y, c))
            if nx not in seen:
                seen.add(nx)
                q.append(nx + (w + (c,),))
    return None


def included(A, B):
    """None if L(A) subset of L(B), else a witness word in A \\ B"""
    alpha = list(A.alpha | B.alpha)
    a0, b0 = A.init(), B.init()
    seen = {(a0, b0)}
    q = [(a0, b0, ())]
    i = 0
    while i < len(q):
        x, y, w = q[i]
        i += 1
        if (x & A.finals) and not (y & B.finals):
            return list(w)
        for c in alpha:
            nx = (A.step(x, c), B.step(y, c))
            if nx[0] and nx not in seen:
                seen.add(nx)
                q.append(nx + (w + (c,),))
    return None


# ---------------------------------------------------------------- operations

def determinize(A, alpha=None, complete=False):
    """reference subset construction -> NFA object that is deterministic; states are ints"""
    alpha = sorted(alpha if alpha is not None else A.alpha, key=repr)
    init = A.init()
    ids = {init: 0}
    order = [init]
    trans = set()
    i = 0
    while i < len(order):
        S = order[i]
        i += 1
        for a in alpha:
            T = A.step(S, a)
            if not T and not complete:
                continue
            if T not in ids:
                ids[T] = len(order)
                order.append(T)
            trans.add((ids[S], a, ids[T]))
    finals = {ids[S] for S in order if S & A.finals}
    return NFA(range(len(order)), {0}, finals, trans, alpha)


def complement(A, alpha=None):
    """Sigma* \\ L(A) over alpha (default A's alphabet)"""
    alpha = A.alpha if alpha is None else frozenset(alpha)
    D = determinize(A, alpha, complete=True)
    return NFA(D.states, D.starts, D.states - D.finals, D.trans, alpha)


def _tag(A, t):
    return NFA({(t, s) for s in A.states}, {(t, s) for s in A.starts}, {(t, s) for s in A.finals},
               {((t, p), a, (t, q)) for p, a, q in A.trans}, A.alpha)


def union(A, B):
    A, B = _tag(A, 0), _tag(B, 1)
    return NFA(A.states | B.states, A.starts | B.starts, A.finals | B.finals, A.trans | B.trans,
               A.alpha | B.alpha)


def concat(A, B):
    A, B = _tag(A, 0), _tag(B, 1)
    bridge = {(f, EPS, s) for f in A.finals for s in B.starts}
    return NFA(A.states | B.states, A.starts, B.finals, A.trans | B.trans | bridge, A.alpha | B.alpha)


def star(A):
    A = _tag(A, 0)
    new = ("new", 0)
    tr = set(A.trans) | {(new, EPS, s) for s in A.starts} | {(f, EPS, new) for f in A.finals}
    return NFA(A.states | {new}, {new}, {new}, tr, A.alpha)


def intersection(A, B):
    alpha = A.alpha & B.alpha
    a0, b0 = A.init(), B.init()
    ids = {(a0, b0): 0}
    order = [(a0, b0)]
    trans = set()
    i = 0
    while i < len(order):
        x, y = order[i]
        i += 1
        for c in alpha:
            nx = (A.step(x, c), B.step(y, c))
            if not nx[0] or not nx[1]:
                continue
            if nx not in ids:
                ids[nx] = len(order)
                order.append(nx)
            trans.add((ids[(x, y)], c, ids[nx]))
    finals = {ids[(x, y)] for (x, y) in order if (x & A.finals) and (y & B.finals)}
    return NFA(range(len(order)), {0}, finals, trans, alpha)


def difference(A, B):
    return intersection_over(A, complement(B, A.alpha | B.alpha), A.alpha | B.alpha)


def intersection_over(A, B, alpha):
    A2 = NFA(A.states, A.starts, A.finals, A.trans, alpha)
    B2 = NFA(B.states, B.starts, B.finals, B.trans, alpha)
    return intersection(A2, B2)


def reverse(A):
    return NFA(A.states, A.finals, A.starts, {(q, a, p) for p, a, q in A.trans}, A.alpha)


def nerode_index(A):
    """number of Myhill-Nerode classes that are reachable and not dead (trim minimal DFA size)"""
    D = determinize(A, complete=True)
    alpha = sorted(D.alpha, key=repr)
    delta = {}
    for p, a, q in D.trans:
        delta[(p, a)] = q
    states = sorted(D.states)
    block = {s: (s in D.finals) for s in states}
    while True:
        sig = {s: (block[s], tuple(block[delta[(s, a)]] for a in alpha)) for s in states}
        ids = {}
        for s in states:
            ids.setdefault(sig[s], len(ids))
        new = {s: ids[sig[s]] for s in states}
        if len(set(new.values())) == len(set(block.values())):
            block = new
            break
        block = new
    # dead class: cannot reach a final
    co = D.coreachable()
    live = {block[s] for s in states if s in co}
    return len(live), len(set(block.values()))


def moore_distinguishable(D):
    """for a deterministic NFA object (partial allowed): are all states pairwise distinguishable?
    returns None or a pair of indistinguishable states"""
    alpha = sorted(D.alpha, key=repr)
    SINK = ("\0sink",)
    states = list(D.states) + [SINK]
    delta = {}
    for p, a, q in D.trans:
        delta[(p, a)] = q
    def d(s, a):
        return delta.get((s, a), SINK) if s is not SINK else SINK
    block = {s: (s in D.finals) for s in states}
    n = len(set(block.values()))
    while True:
        sig = {s: (block[s], tuple(block[d(s, a)] for a in alpha)) for s in states}
        ids = {}
        for s in states:
            ids.setdefault(sig[s], len(ids))
        block = {s: ids[sig[s]] for s in states}
        m = len(ids)
        if m == n:
            break
        n = m
    seen = {}
    for s in states:
        if s is SINK:
            continue
        if block[s] in seen:
            return (seen[block[s]], s)
        seen[block[s]] = s
    return None


def isomorphic(D1, D2):
    """lock-step walk of two deterministic single-start automata (partial allowed)"""
    if len(D1.starts) != len(D2.starts):
        return False
    if not D1.starts:
        return len(D1.states) == len(D2.states) and not D1.trans and not D2.trans
    (s1,), (s2,) = tuple(D1.starts), tuple(D2.starts)
    d1 = {(p, a): q for p, a, q in D1.trans}
    d2 = {(p, a): q for p, a, q in D2.trans}
    m = {s1: s2}
    inv = {s2: s1}
    st = [(s1, s2)]
    while st:
        x, y = st.pop()
        if (x in D1.finals) != (y in D2.finals):
            return False
        ax = {a for (p, a) in d1 if p == x}
        ay = {a for (p, a) in d2 if p == y}
        if ax != ay:
            return False
        for a in ax:
            nx, ny = d1[(x, a)], d2[(y, a)]
            if nx in m:
                if m[nx] != ny:
                    return False
            elif ny in inv:
                return False
            else:
                m[nx] = ny
                inv[ny] = nx
                st.append((nx, ny))
    return len(m) == len(D1.states) and len(inv) == len(D2.states)


def all_words(alpha, n):
    alpha = list(alpha)
    for k in range(n + 1):
        for w in itertools.product(alpha, repeat=k):
            yield w
