"""Reference CFG semantics on plain data.  A grammar is (prods, start) with
prods: iterable of (head, body) ; head: hashable ; body: tuple of ('V', name) | ('T', name).
Imports nothing from pyformlang."""


class Grammar:
    def __init__(self, prods, start, variables=(), terminals=()):
        self.prods = []
        seen = set()
        for h, b in prods:
            k = (h, tuple(b))
            if k not in seen:
                seen.add(k)
                self.prods.append(k)
        self.start = start
        self.variables = set(variables) | {h for h, _ in self.prods} | {
            x[1] for _, b in self.prods for x in b if x[0] == "V"}
        if start is not None:
            self.variables.add(start)
        self.terminals = set(terminals) | {x[1] for _, b in self.prods for x in b if x[0] == "T"}
        self._lang = {}

    def key(self):
        return (frozenset(self.prods), self.start, frozenset(self.variables), frozenset(self.terminals))

    # ------------------------------------------------------------ bounded language
    def lang(self, N):
        """dict variable -> set of words (tuples of terminal names) of length <= N"""
        if N in self._lang:
            return self._lang[N]
        L = {v: set() for v in self.variables}
        changed = True
        while changed:
            changed = False
            for h, b in self.prods:
                cur = {()}
                for x in b:
                    if x[0] == "T":
                        cur = {w + (x[1],) for w in cur if len(w) < N}
                    else:
                        Lx = L[x[1]]
                        cur = {w + v for w in cur for v in Lx if len(w) + len(v) <= N}
                    if not cur:
                        break
                new = cur - L[h]
                if new:
                    L[h] |= new
                    changed = True
        self._lang[N] = L
        return L

    def words(self, N):
        if self.start is None:
            return set()
        return self.lang(N).get(self.start, set())

    # ------------------------------------------------------------ symbol classes
    def generating(self):
        gen = set()
        ch = True
        while ch:
            ch = False
            for h, b in self.prods:
                if h not in gen and all(x[0] == "T" or x[1] in gen for x in b):
                    gen.add(h)
                    ch = True
        return gen

    def nullable(self):
        nul = set()
        ch = True
        while ch:
            ch = False
            for h, b in self.prods:
                if h not in nul and all(x[0] == "V" and x[1] in nul for x in b):
                    nul.add(h)
                    ch = True
        return nul

    def reachable(self):
        """symbols ('V',x)/('T',x) occurring in a sentential form derivable from the start symbol"""
        if self.start is None:
            return set()
        reach = {("V", self.start)}
        st = [self.start]
        by = {}
        for h, b in self.prods:
            by.setdefault(h, []).append(b)
        while st:
            a = st.pop()
            for b in by.get(a, ()):
                for x in b:
                    if x not in reach:
                        reach.add(x)
                        if x[0] == "V":
                            st.append(x[1])
        return reach

    def is_empty(self):
        return self.start is None or self.start not in self.generating()

    def useful_prods(self):
        gen = self.generating()
        prods = [(h, b) for h, b in self.prods if h in gen and all(x[0] == "T" or x[1] in gen for x in b)]
        g2 = Grammar(prods, self.start)
        reach = g2.reachable()
        return [(h, b) for h, b in prods if ("V", h) in reach]

    def is_finite(self):
        """exact: infinite <=> a 'growing' edge lies on a cycle among useful variables (DESIGN E.3)"""
        if self.is_empty():
            return True
        prods = self.useful_prods()
        ne = set()      # variables deriving some non-empty word
        ch = True
        while ch:
            ch = False
            for h, b in prods:
                if h not in ne and any(x[0] == "T" or x[1] in ne for x in b):
                    ne.add(h)
                    ch = True
        edges = set()
        for h, b in prods:
            for i, x in enumerate(b):
                if x[0] != "V":
                    continue
                growing = any((y[0] == "T" or y[1] in ne) for j, y in enumerate(b) if j != i)
                edges.add((h, x[1], growing))
        adj = {}
        for a, b, g in edges:
            adj.setdefault(a, set()).add(b)

        def reach_from(s):
            seen = set()
            st = [s]
            while st:
                x = st.pop()
                for y in adj.get(x, ()):
                    if y not in seen:
                        seen.add(y)
                        st.append(y)
            return seen
        cache = {}
        for a, b, g in edges:
            if g:
                if b not in cache:
                    cache[b] = reach_from(b)
                if a == b or a in cache[b]:
                    return False
        return True

    def max_len(self, cap=40):
        """for finite languages: the exact length of the longest word (-1 for the empty language), by a
        longest-derivation fixpoint over the useful productions (cycles of a finite language add length 0);
        values above `cap` are reported as cap + 1"""
        if self.is_empty():
            return -1
        prods = self.useful_prods()
        best = {}
        for _ in range(2 * len(self.variables) + 3):
            changed = False
            for h, b in prods:
                tot = 0
                ok = True
                for x in b:
                    if x[0] == "T":
                        tot += 1
                    elif x[1] in best:
                        tot += best[x[1]]
                    else:
                        ok = False
                        break
                if ok:
                    tot = min(tot, cap + 1)
                    if tot > best.get(h, -1):
                        best[h] = tot
                        changed = True
            if not changed:
                break
        return best.get(self.start, -1)

    # ------------------------------------------------------------ shape predicates
    def has_eps_prod(self):
        return any(len(b) == 0 for _, b in self.prods)

    def has_unit_prod(self):
        return any(len(b) == 1 and b[0][0] == "V" for _, b in self.prods)

    def is_cnf(self):
        for _, b in self.prods:
            if len(b) == 2 and b[0][0] == "V" and b[1][0] == "V":
                continue
            if len(b) == 1 and b[0][0] == "T":
                continue
            return False
        return True


# ---------------------------------------------------------------- language algebra on bounded sets

def concat_sets(A, B, N):
    return {u + v for u in A for v in B if len(u) + len(v) <= N}


def star_set(A, N, positive=False):
    out = set(A) if positive else {()}
    frontier = set(out)
    while frontier:
        new = concat_sets(frontier, A, N) - out
        out |= new
        frontier = new
    if positive:
        return out
    return out | {()}
