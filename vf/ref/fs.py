"""Reference feature structures: rooted graphs, unification by union-find, canonical forms, FCFG grounding.
No pyformlang import."""
import itertools


class Clash(Exception):
    pass


class TypeClash(Clash):
    """an atom meets a complex structure: the pair is not consistently typed"""


class Graph:
    """nodes: id -> {"atom": value|None, "feats": {name: node id}} ; root id"""

    def __init__(self):
        self.nodes = {}
        self.root = None
        self._n = 0

    def new(self, atom=None):
        self._n += 1
        self.nodes[self._n] = {"atom": atom, "feats": {}}
        return self._n


def from_spec(spec):
    """spec: nested structure  {"feat": atom-string | None | {..} | ("ref", k) }  with ("ref", k): all
    occurrences of the same k are one shared node (unspecified value)"""
    g = Graph()
    refs = {}

    def build(s):
        if isinstance(s, dict):
            n = g.new()
            for k, v in s.items():
                g.nodes[n]["feats"][k] = build(v)
            return n
        if isinstance(s, (tuple, list)) and s and s[0] == "ref":
            if s[1] not in refs:
                refs[s[1]] = g.new()
            return refs[s[1]]
        return g.new(atom=s)
    g.root = build(spec)
    return g


def canonical(g, root=None):
    """(frozenset of (path, atom), frozenset of frozensets of paths that reach the same node) - every path"""
    root = g.root if root is None else root
    by_node = {}
    atoms = set()
    stack = [((), root)]
    count = 0
    while stack:
        path, n = stack.pop()
        count += 1
        if count > 5000:
            raise ValueError("cyclic or huge structure")
        by_node.setdefault(n, set()).add(path)
        nd = g.nodes[n]
        atoms.add((path, nd["atom"]))
        for k, m in nd["feats"].items():
            stack.append((path + (k,), m))
    classes = frozenset(frozenset(p) for p in by_node.values() if len(p) > 1)
    return frozenset(atoms), classes


def unify(ga, gb):
    """reference unification of two graphs -> new Graph (the glb) or raises Clash"""
    g = Graph()
    mapping = {}
    for tag, src in (("a", ga), ("b", gb)):
        for n, nd in src.nodes.items():
            m = g.new(nd["atom"])
            mapping[(tag, n)] = m
        for n, nd in src.nodes.items():
            for k, t in nd["feats"].items():
                g.nodes[mapping[(tag, n)]]["feats"][k] = mapping[(tag, t)]
    parent = {n: n for n in g.nodes}

    def find(x):
        while parent[x] != x:
            parent[x] = parent[parent[x]]
            x = parent[x]
        return x
    work = [(mapping[("a", ga.root)], mapping[("b", gb.root)])]
    while work:
        x, y = work.pop()
        x, y = find(x), find(y)
        if x == y:
            continue
        nx, ny = g.nodes[x], g.nodes[y]
        if nx["atom"] is not None and ny["atom"] is not None and nx["atom"] != ny["atom"]:
            raise Clash()
        if (nx["atom"] is not None and ny["feats"]) or (ny["atom"] is not None and nx["feats"]):
            raise Clash()       # atom against complex: inconsistently typed (not generated)
        parent[y] = x
        if nx["atom"] is None:
            nx["atom"] = ny["atom"]
        for k, t in ny["feats"].items():
            if k in nx["feats"]:
                work.append((nx["feats"][k], t))
            else:
                nx["feats"][k] = t
    # rebuild with representatives
    out = Graph()
    new = {}
    for n in g.nodes:
        r = find(n)
        if r not in new:
            new[r] = out.new(g.nodes[r]["atom"])
    for n in g.nodes:
        r = find(n)
        if r == n:
            for k, t in g.nodes[n]["feats"].items():
                out.nodes[new[r]]["feats"][k] = new[find(t)]
    out.root = new[find(mapping[("a", ga.root)])]
    return out


# ---------------------------------------------------------------- FCFG grounding (DESIGN.md E.4)

def ground(prods, start, domain):
    """prods: list of (head_cat, head_slots, body) ; body items ('T', t) | ('V', cat, slots)
    slots: dict leaf-path -> ('atom', v) | ('var', name)    (missing path = unspecified = fresh variable)
    -> (list of plain productions (head, body tuples), start symbol) for vf.ref.cfg.Grammar"""
    paths = set()
    for h, hs, body in prods:
        paths |= set(hs)
        for x in body:
            if x[0] == "V":
                paths |= set(x[2])
    paths = sorted(paths)
    out = set()
    for h, hs, body in prods:
        occ = [(h, hs)] + [(x[1], x[2]) for x in body if x[0] == "V"]
        named = sorted({v[1] for _, sl in occ for v in sl.values() if v[0] == "var"}, key=repr)
        free = [(i, p) for i, (_, sl) in enumerate(occ) for p in paths if p not in sl]
        for nv in itertools.product(domain, repeat=len(named)):
            env = dict(zip(named, nv))
            for fv in itertools.product(domain, repeat=len(free)):
                fenv = dict(zip(free, fv))

                def sym(i):
                    cat, sl = occ[i]
                    vals = []
                    for p in paths:
                        if p in sl:
                            v = sl[p]
                            vals.append(env[v[1]] if v[0] == "var" else v[1])
                        else:
                            vals.append(fenv[(i, p)])
                    return (cat, tuple(vals))
                b = []
                k = 1
                for x in body:
                    if x[0] == "T":
                        b.append(("T", x[1]))
                    else:
                        b.append(("V", sym(k)))
                        k += 1
                out.add((sym(0), tuple(b)))
    S0 = ("\0start",)
    for vals in itertools.product(domain, repeat=len(paths)):
        out.add((S0, (("V", (start, tuple(vals))),)))
    return sorted(out, key=repr), S0


def unify_joint(g, ra, rb):
    """unify two roots inside one graph (operands may share nodes) -> (new Graph, root) or raises Clash"""
    parent = {n: n for n in g.nodes}
    atoms = {n: nd["atom"] for n, nd in g.nodes.items()}
    feats = {n: dict(nd["feats"]) for n, nd in g.nodes.items()}

    def find(x):
        while parent[x] != x:
            parent[x] = parent[parent[x]]
            x = parent[x]
        return x
    work = [(ra, rb)]
    while work:
        x, y = work.pop()
        x, y = find(x), find(y)
        if x == y:
            continue
        if atoms[x] is not None and atoms[y] is not None and atoms[x] != atoms[y]:
            raise Clash()
        if (atoms[x] is not None and feats[y]) or (atoms[y] is not None and feats[x]):
            raise TypeClash()
        parent[y] = x
        if atoms[x] is None:
            atoms[x] = atoms[y]
        for k, t in feats[y].items():
            if k in feats[x]:
                work.append((feats[x][k], t))
            else:
                feats[x][k] = t
    out = Graph()
    new = {}
    for n in g.nodes:
        r = find(n)
        if r not in new:
            new[r] = out.new(atoms[r])
    for n in g.nodes:
        if find(n) == n:
            for k, t in feats[n].items():
                out.nodes[new[n]]["feats"][k] = new[find(t)]
    out.root = new[find(ra)]
    return out
