"""Reference feature structures: rooted graphs, unification by union-find, canonical forms, FCFG grounding.
No pyformlang import."""
import itertools


class Clash(Exception):
    pass


class TypeClash(Clash):
    """an atom meets a complex structure: the pair is not consistently typed"""


class Graph:
    """nodes: id -> {"atom": value|None, "feats": {name: node id}} ; root id"""

    def __init__(self):
        self.nodes = {}
        self.root = None
        self._n = 0

    def new(self, atom=None):
        self._n += 1
        self.nodes[self._n] = {"atom": atom, "feats": {}}
        return self._n


def from_spec(spec):
    """spec: nested structure  {"feat": atom-string | None | {..} | ("ref", k) }  with ("ref", k): all
    occurrences of the same k are one shared node (unspecified value)"""
    g = Graph()
    refs = {}

    def build(s):
        if isinstance(s, dict):
            n = g.new()
            for k, v in s.items():
                g.nodes[n]["feats"][k] = build(v)
            return n
        if isinstance(s, (tuple, list)) and s and s[0] == "ref":
            if s[1] not in refs:
                refs[s[1]] = g.new()
            return refs[s[1]]
        return g.new(atom=s)
    g.root = build(spec)
    return g


def canonical(g, root=None):
    """(frozenset of (path, atom), frozenset of frozensets of paths that reach the same node) - every path"""
    root = g.root if root is None else root
    by_node = {}
    atoms = set()
    stack = [((), root)]
    count = 0
    while stack:
        path, n = stack.pop()
        count += 1
        if count > 5000:
            raise ValueError("cyclic or huge structure")
        by_node.setdefault(n, set()).add(path)
        nd = g.nodes[n]
        atoms.add((path, nd["atom"]))
        for k, m in nd["feats"].items():
            stack.append((path + (k,), m))
    classes = frozenset(frozenset(p) for p in by_node.values() if len(p) > 1)
    return frozenset(atoms), classes


def unify(ga, gb):
    """reference unification of two separate graphs -> new Graph (the glb) or raises Clash / TypeClash"""
    g = Graph()
    mapping = {}
    for tag, src in (("a", ga), ("b", gb)):
        for n, nd in src.nodes.items():
            mapping[(tag, n)] = g.new(nd["atom"])
        for n, nd in src.nodes.items():
            for k, t in nd["feats"].items():
                g.nodes[mapping[(tag, n)]]["feats"][k] = mapping[(tag, t)]
    return unify_joint(g, mapping[("a", ga.root)], mapping[("b", gb.root)])


# ---------------------------------------------------------------- FCFG grounding (DESIGN.md E.4)

def ground(prods, start, domain):
    """prods: list of (head_cat, head_slots, body) ; body items ('T', t) | ('V', cat, slots)
    slots: dict leaf-path -> ('atom', v) | ('var', name)    (missing path = unspecified = fresh variable)
    -> (list of plain productions (head, body tuples), start symbol) for vf.ref.cfg.Grammar"""
    paths = set()
    for h, hs, body in prods:
        paths |= set(hs)
        for x in body:
            if x[0] == "V":
                paths |= set(x[2])
    paths = sorted(paths)
    out = set()
    for h, hs, body in prods:
        occ = [(h, hs)] + [(x[1], x[2]) for x in body if x[0] == "V"]
        named = sorted({v[1] for _, sl in occ for v in sl.values() if v[0] == "var"}, key=repr)
        free = [(i, p) for i, (_, sl) in enumerate(occ) for p in paths if p not in sl]
        for nv in itertools.product(domain, repeat=len(named)):
            env = dict(zip(named, nv))
            for fv in itertools.product(domain, repeat=len(free)):
                fenv = dict(zip(free, fv))

                def sym(i):
                    cat, sl = occ[i]
                    vals = []
                    for p in paths:
                        if p in sl:
                            v = sl[p]
                            vals.append(env[v[1]] if v[0] == "var" else v[1])
                        else:
                            vals.append(fenv[(i, p)])
                    return (cat, tuple(vals))
                b = []
                k = 1
                for x in body:
                    if x[0] == "T":
                        b.append(("T", x[1]))
                    else:
                        b.append(("V", sym(k)))
                        k += 1
                out.add((sym(0), tuple(b)))
    S0 = ("\0start",)
    for vals in itertools.product(domain, repeat=len(paths)):
        out.add((S0, (("V", (start, tuple(vals))),)))
    return sorted(out, key=repr), S0


def unify_joint(g, ra, rb):
    """unify two roots inside one graph (operands may share nodes) -> new Graph or raises Clash / TypeClash.
    All merges are carried out first; an atom meeting a complex structure anywhere (TypeClash: the pair is not
    consistently typed) is reported in preference to a conflict between two atoms (Clash)."""
    parent = {n: n for n in g.nodes}
    atoms = {n: ({nd["atom"]} if nd["atom"] is not None else set()) for n, nd in g.nodes.items()}
    feats = {n: dict(nd["feats"]) for n, nd in g.nodes.items()}

    def find(x):
        while parent[x] != x:
            parent[x] = parent[parent[x]]
            x = parent[x]
        return x
    work = [(ra, rb)]
    while work:
        x, y = work.pop()
        x, y = find(x), find(y)
        if x == y:
            continue
        parent[y] = x
        atoms[x] |= atoms[y]
        for k, t in feats[y].items():
            if k in feats[x]:
                work.append((feats[x][k], t))
            else:
                feats[x][k] = t
    roots = {find(n) for n in g.nodes}
    reach = set()
    st = [find(ra)]
    while st:
        n = st.pop()
        if n in reach:
            continue
        reach.add(n)
        for t in feats[n].values():
            st.append(find(t))
    if any(atoms[n] and feats[n] for n in reach):
        raise TypeClash()
    if any(len(atoms[n]) > 1 for n in reach):
        raise Clash()
    out = Graph()
    new = {}
    for n in roots:
        new[n] = out.new(next(iter(atoms[n])) if len(atoms[n]) == 1 else None)
    for n in roots:
        for k, t in feats[n].items():
            out.nodes[new[n]]["feats"][k] = new[find(t)]
    out.root = new[find(ra)]
    return out
