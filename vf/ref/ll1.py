"""Textbook FIRST / FOLLOW / PREDICT and the LL(1) verdict on a ref Grammar.  No pyformlang import."""
EPS = ("\0eps",)
END = ("\0end",)      # the end-of-input marker: an object no terminal value can equal (a terminal may be called "$")


def analyse(g):
    V = g.variables
    first = {v: set() for v in V}

    def first_seq(seq):
        out = set()
        for x in seq:
            if x[0] == "T":
                out.add(x[1])
                return out
            out |= first[x[1]] - {EPS}
            if EPS not in first[x[1]]:
                return out
        out.add(EPS)
        return out
    ch = True
    while ch:
        ch = False
        for h, b in g.prods:
            f = first_seq(b)
            if not f <= first[h]:
                first[h] |= f
                ch = True
    follow = {v: set() for v in V}
    if g.start is not None:
        follow[g.start].add(END)
    ch = True
    while ch:
        ch = False
        for h, b in g.prods:
            for i, x in enumerate(b):
                if x[0] != "V":
                    continue
                f = first_seq(b[i + 1:])
                add = (f - {EPS}) | (follow[h] if EPS in f else set())
                if not add <= follow[x[1]]:
                    follow[x[1]] |= add
                    ch = True

    def predict(h, b):
        f = first_seq(b)
        return (f - {EPS}) | (follow[h] if EPS in f else set())
    ll1 = True
    by = {}
    for h, b in g.prods:
        by.setdefault(h, []).append(b)
    for h, bs in by.items():
        for i in range(len(bs)):
            for j in range(i + 1, len(bs)):
                if predict(h, bs[i]) & predict(h, bs[j]):
                    ll1 = False
    return first, follow, ll1, predict


def parse(g, word, predict):
    """table-driven reference LL(1) parser: True iff word is accepted (g must be LL(1))"""
    table = {}
    for h, b in g.prods:
        for a in predict(h, b):
            table[(h, a)] = b
    stack = [("V", g.start)]
    w = list(word) + [END]
    i = 0
    steps = 0
    while stack:
        steps += 1
        if steps > 10000:
            return None
        top = stack.pop()
        if top[0] == "T":
            if w[i] is not END and w[i] == top[1]:
                i += 1
            else:
                return False
        else:
            b = table.get((top[1], w[i]))
            if b is None:
                return False
            stack.extend(reversed(b))
    return w[i] is END
