"""Reference semantics of pyformlang's documented Regex text syntax.

Independent tokenizer + recursive-descent parser of the documented grammar
   union  := concat (('|' | '+') concat)*          (lowest precedence)
   concat := starred (('.')? starred)*             (space or '.')
   starred:= atom '*'*
   atom   := SYMBOL | 'epsilon' | '$' | '(' union ')'
AST nodes: ('sym', value) ('eps',) ('cat', l, r) ('alt', l, r) ('star', x) ('empty',)
Denotation: vf.ref.nfa.NFA (Thompson-like, built here) and a Python `re` pattern.
"""
from vf.ref import nfa as rn

OPS = ".|+*()$"


class ParseError(Exception):
    pass


def tokenize(text):
    """-> list of tokens: ('op', ch) | ('sym', value) | ('eps',)"""
    toks = []
    cur = None       # list of chars of the current symbol token, with escapes resolved
    raw = None
    i = 0
    n = len(text)

    def flush():
        nonlocal cur, raw
        if cur is not None:
            s = "".join(cur)
            if raw == "epsilon":
                toks.append(("eps",))
            else:
                toks.append(("sym", s))
        cur = None
        raw = None

    while i < n:
        ch = text[i]
        if ch == "\\":
            if i + 1 < n:
                if cur is None:
                    cur, raw = [], ""
                cur.append(text[i + 1])
                raw += text[i:i + 2]
                i += 2
                continue
            raise ParseError("dangling backslash")
        if ch == " ":
            flush()
        elif ch in OPS:
            flush()
            if ch == "$":
                toks.append(("eps",))
            else:
                toks.append(("op", ch))
        else:
            if cur is None:
                cur, raw = [], ""
            cur.append(ch)
            raw += ch
        i += 1
    flush()
    return toks


def parse(text):
    toks = tokenize(text)
    pos = 0

    def peek():
        return toks[pos] if pos < len(toks) else None

    def union():
        nonlocal pos
        left = concat()
        while peek() in (("op", "|"), ("op", "+")):
            pos += 1
            right = concat()
            left = ("alt", left, right)
        return left

    def concat():
        nonlocal pos
        left = starred()
        while True:
            t = peek()
            if t == ("op", "."):
                pos += 1
                right = starred()
                left = ("cat", left, right)
            elif t is not None and (t[0] in ("sym", "eps") or t == ("op", "(")):
                right = starred()
                left = ("cat", left, right)
            else:
                return left

    def starred():
        nonlocal pos
        a = atom()
        while peek() == ("op", "*"):
            pos += 1
            a = ("star", a)
        return a

    def atom():
        nonlocal pos
        t = peek()
        if t is None:
            raise ParseError("unexpected end")
        if t[0] == "sym":
            pos += 1
            return ("sym", t[1])
        if t[0] == "eps":
            pos += 1
            return ("eps",)
        if t == ("op", "("):
            pos += 1
            e = union()
            if peek() != ("op", ")"):
                raise ParseError("missing )")
            pos += 1
            return e
        raise ParseError("unexpected %r" % (t,))

    if not toks:
        raise ParseError("empty")
    e = union()
    if pos != len(toks):
        raise ParseError("trailing %r" % (toks[pos],))
    return e


BIN = (("op", "|"), ("op", "+"), ("op", "."))


def classify(text):
    """'well' | 'must-refuse' | 'lenient' for a regex text, per DESIGN.md C05"""
    try:
        toks = tokenize(text)
    except ParseError:
        return "lenient"
    try:
        parse(text)
        return "well"
    except ParseError:
        pass
    depth = 0
    must = False
    prev = None
    for t in toks:
        if t == ("op", "("):
            depth += 1
        elif t == ("op", ")"):
            depth -= 1
            if depth < 0:
                must = True
        if t in BIN and (prev is None or prev == ("op", "(") or prev in BIN):
            must = True
        if t == ("op", "*") and (prev is None or prev == ("op", "(") or prev in BIN):
            must = True
        prev = t
    if depth != 0:
        must = True
    return "must-refuse" if must else "lenient"


# ---------------------------------------------------------------- denotation

def to_nfa(ast):
    trans = set()
    counter = [0]

    def new():
        counter[0] += 1
        return counter[0]

    def build(t, s, f):
        k = t[0]
        if k == "sym":
            trans.add((s, t[1], f))
        elif k == "eps":
            trans.add((s, rn.EPS, f))
        elif k == "empty":
            pass
        elif k == "cat":
            m = new()
            build(t[1], s, m)
            build(t[2], m, f)
        elif k == "alt":
            build(t[1], s, f)
            build(t[2], s, f)
        elif k == "star":
            a, b = new(), new()
            trans.add((s, rn.EPS, a))
            trans.add((b, rn.EPS, a))
            trans.add((a, rn.EPS, f))
            build(t[1], a, b)
        else:
            raise ValueError(k)
    s, f = new(), new()
    build(ast, s, f)
    return rn.NFA(range(1, counter[0] + 1), {s}, {f}, trans, symbols(ast))


def symbols(ast):
    if ast[0] == "sym":
        return {ast[1]}
    out = set()
    for x in ast[1:]:
        if isinstance(x, tuple):
            out |= symbols(x)
    return out


def to_py(ast, chmap):
    """python re pattern over a symbol -> single character map"""
    import re
    k = ast[0]
    if k == "sym":
        return re.escape(chmap[ast[1]])
    if k == "eps":
        return "(?:)"
    if k == "empty":
        return "(?!)"
    if k == "star":
        return "(?:" + to_py(ast[1], chmap) + ")*"
    if k == "cat":
        return "(?:" + to_py(ast[1], chmap) + ")(?:" + to_py(ast[2], chmap) + ")"
    if k == "alt":
        return "(?:" + to_py(ast[1], chmap) + "|" + to_py(ast[2], chmap) + ")"
    raise ValueError(k)


# ---------------------------------------------------------------- generation / rendering

PREC = {"alt": 0, "cat": 1, "star": 2, "sym": 3, "eps": 3}
PLAIN = ["a", "b", "cd", "x1", "ab"]      # "ab" next to "a", "b": different words that spell the same text
ESCAPED = ["|", "*", "+", ".", "(", ")", "$"]


def gen_ast(rng, depth, escaped=0.08):
    if depth == 0 or rng.random() < 0.25:
        r = rng.random()
        if r < 0.1:
            return ("eps",)
        if r < 0.1 + escaped:
            return ("sym", rng.choice(ESCAPED))
        return ("sym", rng.choice(PLAIN))
    k = rng.random()
    if k < 0.28:
        return ("star", gen_ast(rng, depth - 1, escaped))
    if k < 0.65:
        return ("cat", gen_ast(rng, depth - 1, escaped), gen_ast(rng, depth - 1, escaped))
    return ("alt", gen_ast(rng, depth - 1, escaped), gen_ast(rng, depth - 1, escaped))


def render(ast, rng, redundant=0.0, spacing=True):
    """render with minimal or redundant parentheses, ' ' or '.' concatenation, '|' or '+' union"""
    k = ast[0]

    def sub(c, need):
        s = render(c, rng, redundant, spacing)
        if PREC[c[0]] < need or (redundant and rng.random() < redundant):
            return "(" + s + ")"
        return s

    def sp():
        return rng.choice(["", " ", "  "]) if spacing else ""
    if k == "sym":
        v = ast[1]
        return ("\\" + v) if v in ESCAPED else v
    if k == "eps":
        return rng.choice(["epsilon", "$"])
    if k == "star":
        return sub(ast[1], 3) + sp() + "*"
    if k == "cat":
        # concatenation is associative: a right child that is itself a concatenation needs no parentheses,
        # but we keep the tree shape out of the comparison anyway
        op = rng.choice([" ", ".", " . ", "  "]) if spacing else rng.choice([" ", "."])
        ls, rs_ = sub(ast[1], 1), sub(ast[2], 1)
        if ((ls == "$" and (rs_[:1].isalnum() or rs_[:1] == "$")) or
                (rs_ == "$" and (ls[-1:].isalnum() or ls[-1:] == "$") and not ls.endswith("epsilon"))) \
                and rng.random() < 0.6:
            op = ""             # the one-character epsilon is its own token: a$ is a followed by the empty word
        return ls + op + rs_
    if k == "alt":
        op = rng.choice(["|", "+"])
        return sub(ast[1], 0) + sp() + op + sp() + sub(ast[2], 0)
    raise ValueError(k)


def all_asts(depth, syms=("a", "b")):
    """every AST of depth <= depth over the given symbols (+ eps)"""
    if depth == 0:
        out = [("sym", s) for s in syms] + [("eps",)]
        return out
    smaller = all_asts(depth - 1, syms)
    out = list(smaller)
    for x in smaller:
        out.append(("star", x))
    for x in smaller:
        for y in smaller:
            out.append(("cat", x, y))
            out.append(("alt", x, y))
    # dedupe
    seen = set()
    res = []
    for t in out:
        if t not in seen:
            seen.add(t)
            res.append(t)
    return res
