"""Orchestrates one check: spawn workers (one per hash seed / slice), aggregate their monitor
logs, classify observations against known_findings.json, write evidence, set the exit code.

exit 0  held on everything observed (KNOWN-FINDING lines allowed)
exit 1  VIOLATION property=<id> replay=<path>   (an observation not listed as known)
exit 2  INCONCLUSIVE property=<id> reason=...   (deciding monitor not reached, monitor bug, ...)
"""
import argparse
import json
import os
import shutil
import subprocess
import sys
import tempfile
import time

ROOT = os.path.dirname(os.path.dirname(os.path.abspath(__file__)))
PY = "/venv/bin/python"
REPO = os.environ.get("VF_REPO", "/repo")


def env_for(hashseed):
    env = dict(os.environ)
    env["PYTHONHASHSEED"] = str(hashseed)
    env["PYTHONDONTWRITEBYTECODE"] = "1"
    pp = [ROOT]
    if REPO != "/repo":
        pp.append(REPO)
    deps = os.path.join(ROOT, ".deps")
    if os.path.isdir(deps):
        pp.append(deps)
    env["PYTHONPATH"] = os.pathsep.join(pp)
    env["PYFORMLANG_VERIF"] = "1"
    return env


def load_known():
    p = os.path.join(ROOT, "known_findings.json")
    if not os.path.exists(p):
        return []
    return json.load(open(p)).get("findings", [])


def match_known(v, known):
    for k in known:
        if k["property"] != v["property"]:
            continue
        if v["sub_claim"] not in k["sub_claims"]:
            continue
        # a listed failure mode ending in '*' stands for every mode with that prefix ("exception:*")
        if not any(v["failure_mode"] == fm or (fm.endswith("*") and v["failure_mode"].startswith(fm[:-1]))
                   for fm in k["failure_modes"]):
            continue
        if all(t in v["tags"] for t in k["tags_all"]):
            return k
    return None


def run_check(prop, tier, seed, workers=None, budget=None, keep=False):
    t0 = time.time()
    sys.path.insert(0, ROOT)
    import importlib
    mod = importlib.import_module("vf.props." + prop.lower())
    cfg = mod.TIERS[tier]
    nworkers = workers or cfg.get("workers", 4)
    hashseeds = cfg.get("hashseeds") or ([0, 1] + [seed + 2 + i for i in range(nworkers)])
    wroot = os.environ.get("VF_WORKDIR", os.path.join(ROOT, ".work"))
    os.makedirs(wroot, exist_ok=True)
    work = tempfile.mkdtemp(prefix="vf-%s-" % prop, dir=wroot)
    procs = []
    try:
        for i in range(nworkers):
            out = os.path.join(work, "w%d.json" % i)
            cmd = [PY, "-B", "-m", "vf.worker", "--prop", prop, "--tier", tier, "--seed", str(seed),
                   "--slice", str(i), "--nslices", str(nworkers), "--out", out, "--repo", REPO]
            b = budget or cfg.get("budget")
            if b:
                cmd += ["--budget", str(b)]
            log = open(os.path.join(work, "w%d.log" % i), "w")
            procs.append((i, out, subprocess.Popen(cmd, cwd=work, env=env_for(hashseeds[i % len(hashseeds)]),
                                                   stdout=log, stderr=subprocess.STDOUT), log))
        pyt = None
        if cfg.get("pytest"):
            pout = os.path.join(work, "pytest.json")
            env = env_for(0)
            env["VF_PROP"] = prop
            env["VF_OUT"] = pout
            scratch = os.path.join(work, "pytest-cwd")
            os.mkdir(scratch)
            plog = open(os.path.join(work, "pytest.log"), "w")
            pyt = (pout, subprocess.Popen(
                [PY, "-B", "-m", "pytest", "-q", "-x", "-p", "vf.pytest_plugin", "-p", "no:cacheprovider",
                 "--rootdir", scratch, os.path.join(REPO, "pyformlang")],
                cwd=scratch, env=env, stdout=plog, stderr=subprocess.STDOUT), plog)
        hard = cfg.get("hard_timeout", 3600)
        results = []
        problems = []
        for i, out, p, log in procs:
            try:
                p.wait(timeout=max(1, hard - (time.time() - t0)))
            except subprocess.TimeoutExpired:
                p.kill()
                problems.append("worker %d exceeded the hard timeout" % i)
            log.close()
            if os.path.exists(out):
                results.append(json.load(open(out)))
            else:
                tail = open(os.path.join(work, "w%d.log" % i)).read()[-800:]
                problems.append("worker %d produced no result (rc=%s): %s" % (i, p.returncode, tail))
        pyres = None
        if pyt:
            pout, p, plog = pyt
            try:
                p.wait(timeout=max(1, hard - (time.time() - t0)))
            except subprocess.TimeoutExpired:
                p.kill()
            plog.close()
            if os.path.exists(pout):
                pyres = json.load(open(pout))
            else:
                problems.append("pytest workload produced no monitor log: " +
                                open(os.path.join(work, "pytest.log")).read()[-500:])
    finally:
        if not keep:
            shutil.rmtree(work, ignore_errors=True)

    if os.environ.get("VF_LINECOV"):
        # diagnostic only: which library lines the workload of this check executed
        hit = {}
        for r in results:
            for fn, ls in r.get("lines_hit", {}).items():
                hit.setdefault(fn, set()).update(ls)
        os.makedirs(os.environ["VF_LINECOV"], exist_ok=True)
        with open(os.path.join(os.environ["VF_LINECOV"], "%s.%s.json" % (prop, tier)), "w") as f:
            json.dump({k: sorted(v) for k, v in hit.items()}, f)

    # ------------------------------------------------------------ aggregate
    known = load_known()
    counters, classes, discarded, inconc, anchors, extra = {}, {}, {}, {}, {}, {}
    anchors_internal = set()       # private helpers / unexported helper classes: reported when never entered, not demanded
    anchors_missing = []           # anchored functions that do not exist in the tree under test (recorded, not demanded)
    nontrivial, orders = set(), set()
    samples, violations, cerrs = [], [], []
    evaluations = nested = top = 0
    for r in results + ([pyres] if pyres else []):
        for k, v in r["counters"].items():
            counters[k] = counters.get(k, 0) + v
        for k, v in r.get("classes", {}).items():
            classes[k] = classes.get(k, 0) + v
        for k, v in r["discarded"].items():
            discarded[k] = discarded.get(k, 0) + v
        for k, v in r["inconclusive"].items():
            inconc[k] = inconc.get(k, 0) + v
        for k, v in r.get("anchors", {}).items():
            anchors[k] = anchors.get(k, 0) + v
        for k in r.get("anchors_missing", ()):
            if k not in anchors_missing:
                anchors_missing.append(k)
        anchors_internal.update(r.get("anchors_internal", ()))
        for k, v in r.get("extra", {}).items():
            if isinstance(v, (int, float)) and not isinstance(v, bool):
                extra[k] = extra.get(k, 0) + v
            else:
                extra[k] = v
        nontrivial.update(r.get("nontrivial", ()))
        orders.update(r.get("order_hashes", ()))
        samples.extend(r.get("samples", [])[:2])
        violations.extend(r["violations"])
        cerrs.extend(r["contract_errors"])
        evaluations += r.get("evaluations", 0)
        nested += r.get("nested_calls", 0)
        top += r.get("top_calls", 0)

    groups = {}      # unlisted: signature -> list
    kfound = {}
    for v in violations:
        k = match_known(v, known)
        if k is not None:
            kfound.setdefault(k["id"], []).append(v)
        else:
            sig = (v["sub_claim"], v["failure_mode"], tuple(v["tags"]))
            groups.setdefault(sig, []).append(v)

    rdir = os.path.join(os.environ.get("VF_REPLAY_DIR", os.path.join(ROOT, "replays")), prop)
    os.makedirs(rdir, exist_ok=True)
    for old in os.listdir(rdir):            # replays belong to one run
        if old.endswith(".json"):
            os.remove(os.path.join(rdir, old))
    lines = []
    for kid, vs in sorted(kfound.items()):
        k = [x for x in known if x["id"] == kid][0]
        lines.append("KNOWN-FINDING: property=%s %s: %s (%d observations)" % (prop, kid, k["description"], len(vs)))
        w = min(vs, key=lambda v: len(json.dumps(v["case"])))
        json.dump(w, open(os.path.join(rdir, "known-%s.json" % kid), "w"), indent=1)
    vio_lines = []
    for sig, vs in sorted(groups.items(), key=lambda kv: -len(kv[1])):
        w = min(vs, key=lambda v: len(json.dumps(v["case"])))
        w = dict(w, hashseeds=hashseeds, VERIF_SEED=seed, observations=len(vs))
        name = "%s-%s-%s.json" % (sig[0], sig[1], core_hash(sig))
        path = os.path.join(rdir, name.replace("/", "_"))
        json.dump(w, open(path, "w"), indent=1)
        vio_lines.append((len(vs), "VIOLATION property=%s replay=%s sub_claim=%s failure_mode=%s tags=%s observations=%d" % (
            prop, path, sig[0], sig[1], ",".join(sig[2]), len(vs))))

    # ------------------------------------------------------------ conclusiveness
    reasons = list(problems)
    if cerrs:
        reasons.append("%d monitor errors, first: %s" % (len(cerrs), cerrs[0]["contract"] + " " + cerrs[0]["trace"][-300:]))
    need = mod.MIN.get(tier, {})
    for key, n in need.items():
        got = sum(v for k, v in counters.items() if k.startswith(key))
        if got < n:
            reasons.append("contract %s evaluated %d < %d times" % (key, got, n))
    for key in getattr(mod, "HARNESS_FAULT_DISCARDS", ()):
        # discards that only a harness slip can produce (a scripted step that found nothing to act on): the run
        # did not exercise what it claims to
        if discarded.get(key):
            reasons.append("harness discard %s occurred %d times" % (key, discarded[key]))
    for a, n in anchors.items():
        if n == 0 and a not in anchors_internal:
            reasons.append("anchor %s never entered" % a)
    if anchors and not any(anchors.values()):
        reasons.append("no anchor was entered at all")
    wd = sum(inconc.values())
    if evaluations and wd > max(5, cfg.get("inconclusive_tolerance", 0.05) * evaluations):
        reasons.append("%d inconclusive cases (%s) out of %d" % (wd, inconc, evaluations))
    if len(nontrivial) < 2:
        reasons.append("fewer than 2 distinct non-trivial cases")

    ev = {
        "property_id": prop, "tier": tier, "seed": seed, "level": "exploration",
        "coverage": {
            "evaluations": evaluations,
            "distinct_nontrivial": len(nontrivial),
            "rule": mod.RULE,
            "samples": samples[:6],
            "exhaustive": bool(extra.get("exhaustive_complete", False)) and tier == "thorough",
            "contract_evaluations": dict(sorted((k, v) for k, v in counters.items() if not k.startswith("violations"))),
            "case_classes": dict(sorted(classes.items())),
            "hash_seeds": sorted(set(str(r.get("hashseed")) for r in results)),
            "distinct_iteration_orders": len(orders),
            "monitored_calls_from_workload": top,
            "monitored_calls_nested_inside_library": nested,
            "pytest_workload_events": (pyres or {}).get("top_calls", 0) + (pyres or {}).get("nested_calls", 0) if pyres else None,
            "anchor_hits": anchors,
            "anchors_not_in_this_tree": anchors_missing,
            "internal_anchors_never_entered": sorted(a for a, n in anchors.items() if n == 0 and a in anchors_internal),
            "discarded_outside_quantifier": discarded,
            "inconclusive_cases": inconc,
            "known_findings_observed": {k: len(v) for k, v in kfound.items()},
            "unlisted_violation_groups": len(groups),
            "extra": extra,
            "workers": len(results),
        },
        "assumptions": getattr(mod, "ASSUMPTIONS", []) + [
            "reference models in vf/ref are the trusted base (cross-checked by vf.selftest)",
            "held only on the executions observed; scopes are small"],
        "wall_s": round(time.time() - t0, 2),
        "violations": sum(len(v) for v in groups.values()),
    }
    evdir = os.environ.get("VF_EVIDENCE_DIR", os.path.join(ROOT, "evidence"))
    os.makedirs(evdir, exist_ok=True)
    json.dump(ev, open(os.path.join(evdir, prop + ".json"), "w"), indent=1, sort_keys=True)

    for l in lines:
        print(l)
    if vio_lines:
        for _, l in vio_lines[:40]:
            print(l)
        print("FAILED property=%s: %d unlisted observations in %d groups (%d evaluations, %.1fs)" % (
            prop, ev["violations"], len(groups), evaluations, time.time() - t0))
        return 1
    if reasons:
        for r in reasons:
            print("INCONCLUSIVE property=%s reason=%s" % (prop, r))
        return 2
    print("HELD property=%s tier=%s: %d cases (%d distinct non-trivial), %d contract evaluations, "
          "%d nested library calls observed, %d iteration orders, %.1fs" % (
              prop, tier, evaluations, len(nontrivial),
              sum(v for k, v in counters.items() if k.startswith(prop)), nested, len(orders), time.time() - t0))
    return 0


def core_hash(sig):
    import hashlib
    return hashlib.sha1(repr(sig).encode()).hexdigest()[:8]


def main():
    ap = argparse.ArgumentParser()
    ap.add_argument("prop")
    ap.add_argument("--tier", default=os.environ.get("VERIF_TIER", "quick"))
    ap.add_argument("--replay")
    ap.add_argument("--workers", type=int)
    ap.add_argument("--budget", type=float)
    ap.add_argument("--keep", action="store_true")
    a = ap.parse_args()
    seed = int(os.environ.get("VERIF_SEED", "0") or 0)
    if a.prop == "selftest":
        sys.exit(subprocess.call([PY, "-B", "-m", "vf.selftest"], cwd=ROOT, env=env_for(0)))
    if a.replay:
        rec = json.load(open(a.replay))
        hs = (rec.get("hashseeds") or [0])
        rc = 0
        for h in sorted(set(hs))[:6]:
            r = subprocess.call([PY, "-B", "-m", "vf.worker", "--prop", a.prop, "--replay", os.path.abspath(a.replay),
                                 "--repo", REPO], cwd=ROOT, env=env_for(h))
            rc = max(rc, r)
            if r == 1:
                break
        sys.exit(rc)
    sys.exit(run_check(a.prop, a.tier, seed, a.workers, a.budget, a.keep))


if __name__ == "__main__":
    main()
