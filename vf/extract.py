"""library object -> plain reference data, through the public API only.
Always called in oracle mode (monitoring off)."""
import zlib

from vf.ref import nfa as rn


def fa(a):
    """any finite automaton -> ref NFA over state/symbol *values*"""
    from pyformlang.finite_automaton import Epsilon
    from vf import core
    core.LOG.orders.add(zlib.crc32(repr((list(a.states), list(a.symbols))).encode()))
    trans = set()
    for p, s, q in a:
        trans.add((p.value, rn.EPS if isinstance(s, Epsilon) else s.value, q.value))
    return rn.NFA([x.value for x in a.states],
                  [x.value for x in a.start_states],
                  [x.value for x in a.final_states],
                  trans,
                  [x.value for x in a.symbols])


def fa_order(a):
    """iteration-order fingerprint of the automaton's containers"""
    return (tuple(repr(x.value) for x in a.states), tuple(repr(x.value) for x in a.symbols))


def fa_kind(a):
    from pyformlang.finite_automaton import (DeterministicFiniteAutomaton,
                                             NondeterministicFiniteAutomaton)
    if isinstance(a, DeterministicFiniteAutomaton):
        return "dfa"
    if isinstance(a, NondeterministicFiniteAutomaton):
        return "nfa"
    return "enfa"


def cfg(g):
    """CFG -> ref Grammar over (kind, value) symbols; kinds by isinstance, never by value equality"""
    from pyformlang.cfg import Variable, Terminal
    from vf.ref.cfg import Grammar
    prods = []
    for p in g.productions:
        body = []
        for x in p.body:
            if isinstance(x, Variable):
                body.append(("V", x.value))
            elif isinstance(x, Terminal):
                body.append(("T", x.value))
            else:
                body.append(("?", repr(x)))
        prods.append((p.head.value, tuple(body)))
    start = g.start_symbol.value if g.start_symbol is not None else None
    from vf import core
    core.LOG.orders.add(zlib.crc32(repr((list(g.variables), list(g.terminals), len(prods) and prods[0])).encode()))
    return Grammar(prods, start, [v.value for v in g.variables], [t.value for t in g.terminals])


def _v(x):
    """value of a library object; a PDA without start state/stack symbol carries None in derived transitions"""
    return x.value if x is not None else None


def pda(p):
    """PDA -> ref PDA over values (states, start state, final states, to_dict(); the start stack symbol has no
    public accessor: read from the object, falling back to the networkx export)"""
    from pyformlang.pda import Epsilon as PEps
    from vf.ref import pda as rp
    trans = []
    for (q, a, X), outs in p.to_dict().items():
        for (r, g) in outs:
            # an input symbol that EQUALS Epsilon() is an epsilon move for the library (Symbol("epsilon") too)
            trans.append((_v(q), rp.EPS if (isinstance(a, PEps) or a == PEps()) else _v(a), _v(X), _v(r),
                          tuple(_v(y) for y in g if not isinstance(y, PEps))))
    _missing = object()
    z = getattr(p, "_start_stack_symbol", _missing)
    if z is _missing:
        import json
        gx = p.to_networkx()
        z0 = json.loads(gx.nodes["INITIAL_STACK_HIDDEN"]["label"]) if "INITIAL_STACK_HIDDEN" in gx.nodes else None
    else:
        z0 = z.value if z is not None else None
    q0 = p.start_state.value if p.start_state is not None else None
    return rp.PDA(trans, q0, z0, [f.value for f in p.final_states], [s.value for s in p.states])


def fst(t):
    """FST -> ref FST (states, start_states, final_states, transitions are public)"""
    from vf.ref import fst as rf
    trans = []
    for (p, a), outs in t.transitions.items():
        for (q, out) in outs:
            trans.append((p, a, q, tuple(out)))
    return rf.FST(list(t.states), list(t.start_states), list(t.final_states), trans)
