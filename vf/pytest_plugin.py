"""pytest plugin: run the repository's own tests with one property's contracts installed.
Only the monitor log is read; pass/fail of the tests is ignored by the runner."""
import json
import os

from vf import core


def pytest_configure(config):
    prop = os.environ.get("VF_PROP")
    if not prop or os.environ.get("PYFORMLANG_VERIF") != "1":
        return
    import importlib
    mod = importlib.import_module("vf.props." + prop.lower())
    core.ACTIVE.add(prop)
    mod.install()
    core.LOG.case = {"workload": "repository test-suite"}
    config._vf_mod = mod


def pytest_runtest_setup(item):
    core.LOG.case = {"workload": "repository test-suite", "test": item.nodeid}
    core.LOG.depth = 0
    core.LOG.in_oracle = 0


def pytest_unconfigure(config):
    out = os.environ.get("VF_OUT")
    if not out or not hasattr(config, "_vf_mod"):
        return
    json.dump({
        "counters": core.LOG.counters, "violations": core.LOG.violations,
        "discarded": core.LOG.discarded, "inconclusive": core.LOG.inconclusive,
        "contract_errors": core.LOG.contract_errors, "nested_calls": core.LOG.nested,
        "top_calls": core.LOG.top, "order_hashes": sorted(core.LOG.orders)[:20000],
        "evaluations": 0, "classes": {"pytest_workload_calls": core.LOG.top + core.LOG.nested},
    }, open(out, "w"))
