"""Value classes: abstract ids -> concrete state / symbol values (Appendix B of DESIGN.md)."""


class K:
    """order-injection key: equality and order by name, hash chosen by the harness"""
    __slots__ = ("name", "h")

    def __init__(self, name, h):
        self.name = name
        self.h = h

    def __hash__(self):
        return self.h

    def __eq__(self, other):
        return isinstance(other, K) and other.name == self.name

    def __lt__(self, other):
        return self.name < other.name

    def __str__(self):
        return self.name

    def __repr__(self):
        return "K(%s)" % self.name


MERGED = ["a", "b", "a;b", "a;b'", "TRASH", "Empty", "TrashNode", "a; b", "b;a", "c", ";", "a; b'"]
MIXED = [1, "1", "1;2", 2, "2", (1, 2)]
RESERVED_FA = ["Start0", "Start1", "TrashNode", "TrashNode0", "star_start", "Start2", "Empty", "Start"]
TUPLES = [(0, "x"), ("p", 1), (0,), (1, "x"), ("p", 2), ()]
STRS = ["q0", "q1", "q2", "q3", "q4", "q5", "q6", "q7"]
SYM_STR = ["a", "b", "cd", "x1"]
SYM_TOKEN = ["a", "b", "ab", "x_1", "é", "7"]     # regex-safe tokens (C06)


VARNAMES = ["S", "A", "B", "C", "a#CNF#", "s", "np"]      # states named like the variables of a grammar operand
HASHCLASH = [-1, -2, 0, 2 ** 61 - 1, 1, 2 ** 61]      # CPython: hash(-1) == hash(-2), hash(0) == hash(2**61 - 1)


def state_value(vc, i, perm=None):
    """perm: for vc == 'inject', tuple of hash values indexed by state id"""
    if vc in ("int", "binary"):
        return i
    if vc == "str":
        return STRS[i % len(STRS)] if i < len(STRS) else "q%d" % i
    if vc == "merged":
        return MERGED[i] if i < len(MERGED) else "m%d" % i
    if vc == "reservedfa":
        return RESERVED_FA[i] if i < len(RESERVED_FA) else "r%d" % i
    if vc == "mixed":
        return MIXED[i] if i < len(MIXED) else "x%d" % i
    if vc == "tuple":
        return TUPLES[i] if i < len(TUPLES) else (i, "t")
    if vc == "inject":
        h = perm[i] if perm is not None and i < len(perm) else i
        return K("s%d" % i, h)
    if vc == "hashclash":
        return HASHCLASH[i] if i < len(HASHCLASH) else i
    if vc == "longnames":
        return "the_state_of_the_automaton_numbered_%02d" % i   # long names that differ at their END (merged names pass 64 characters)
    if vc == "varnames":
        return VARNAMES[i] if i < len(VARNAMES) else "V%d" % i
    raise ValueError(vc)


def symbol_value(vc, j, token=False):
    if j >= 8:
        return "s%d" % j                    # large alphabets (scale cases): one name per index
    if token:
        return SYM_TOKEN[j % len(SYM_TOKEN)]
    if vc == "binary":
        return [0, 1, 2, ""][j % 4]          # falsy symbol values: 0 and the empty string
    if vc == "mixed":
        return [1, "1", 2][j % 3]
    if vc == "tuple":
        return [("a", 1), ("a", 2), ("b",)][j % 3]
    if vc == "hashclash":
        return [-1, -2, 0, 2 ** 61 - 1][j % 4]
    return SYM_STR[j % len(SYM_STR)]


FA_VALUE_CLASSES = ["int", "str", "merged", "mixed", "tuple", "inject", "binary", "reservedfa", "hashclash"]


class OneShot:
    """a word handed over as a one-shot iterable (like a generator or iter(list)): it can be iterated ONCE; the
    monitors read .content instead of consuming it"""

    def __init__(self, items):
        self.content = list(items)
        self._it = iter(self.content)

    def __iter__(self):
        return self

    def __next__(self):
        return next(self._it)


def items_of(word):
    """the items of a word argument without consuming a OneShot"""
    if isinstance(word, OneShot):
        return list(word.content)
    return list(word)


def word_form(wd, i, wrap=None):
    """the same word in another accepted form: list, tuple, one-shot iterable, list of library objects"""
    if wrap is not None and i % 5 == 2:
        return [wrap(x) for x in wd]
    if i % 5 == 3:
        return OneShot(wd)
    if i % 5 == 4:
        return tuple(wd)
    return list(wd)
