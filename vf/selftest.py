"""Cross-validation of the reference models against each other (the trusted base).
A disagreement here means an oracle is wrong -> exit 2 (INCONCLUSIVE), never a pyformlang verdict."""
import itertools
import random
import sys

from vf.ref import nfa as rn

FAILS = []
COUNT = {}


def chk(name, cond, info=None):
    COUNT[name] = COUNT.get(name, 0) + 1
    if not cond and len(FAILS) < 20:
        FAILS.append((name, info))


def rand_nfa(rng, n=4, k=2):
    n = rng.randint(1, n)
    tr = set()
    for p in range(n):
        for q in range(n):
            for a in "ab"[:k]:
                if rng.random() < 0.3:
                    tr.add((p, a, q))
            if rng.random() < 0.15:
                tr.add((p, rn.EPS, q))
    return rn.NFA(range(n), [s for s in range(n) if rng.random() < 0.4],
                  [s for s in range(n) if rng.random() < 0.4], tr, "ab"[:k])


def brute_accepts(A, w):
    """independent acceptance: explicit path search over configurations"""
    seen = set()
    st = [(s, 0) for s in A.starts]
    while st:
        p, i = st.pop()
        if (p, i) in seen:
            continue
        seen.add((p, i))
        if i == len(w) and p in A.finals:
            return True
        for (x, a, q) in A.trans:
            if x != p:
                continue
            if a is rn.EPS:
                st.append((q, i))
            elif i < len(w) and a == w[i]:
                st.append((q, i + 1))
    return False


def test_nfa(rng, rounds):
    words = [w for w in rn.all_words("ab", 4)]
    for _ in range(rounds):
        A, B = rand_nfa(rng), rand_nfa(rng)
        la = {w for w in words if brute_accepts(A, w)}
        lb = {w for w in words if brute_accepts(B, w)}
        chk("accepts", la == {w for w in words if A.accepts(w)})
        chk("words", la == A.words(4))
        chk("determinize", rn.equiv(A, rn.determinize(A)) is None)
        chk("determinize-shape", rn.determinize(A).is_deterministic())
        C = rn.complement(A, "ab")
        chk("complement", {w for w in words if C.accepts(w)} == set(words) - la)
        chk("union", {w for w in words if rn.union(A, B).accepts(w)} == la | lb)
        chk("inter", {w for w in words if rn.intersection(A, B).accepts(w)} == la & lb)
        chk("diff", {w for w in words if rn.difference(A, B).accepts(w)} == la - lb)
        chk("reverse", {w for w in words if rn.reverse(A).accepts(w)} == {w[::-1] for w in la})
        cc = {u + v for u in la for v in lb if len(u + v) <= 4}
        chk("concat", {w for w in words if rn.concat(A, B).accepts(w)} == cc)
        st = {()}
        for _i in range(5):
            st |= {u + v for u in st for v in la if len(u + v) <= 4}
        chk("star", {w for w in words if rn.star(A).accepts(w)} == st)
        d = rn.equiv(A, B)
        chk("equiv", (d is None) == (la == lb) or d is not None and len(d) > 4, (d,))
        if d is not None:
            chk("equiv-witness", A.accepts(d) != B.accepts(d))
        chk("empty", A.is_empty() == (not any(brute_accepts(A, w) for w in rn.all_words("ab", 5))))
        fin = A.is_finite()
        longw = any(len(w) >= 6 for w in A.words(9))
        chk("finite", fin == (not longw), (A.key(),))
        D = rn.determinize(A)
        m = rn.nerode_index(A)[0]
        chk("nerode<=det", m <= len(D.states))
        chk("iso-self", rn.isomorphic(D, D))


def main():
    quick = "--quick" in sys.argv
    rng = random.Random(12345)
    test_nfa(rng, 150 if quick else 1500)
    try:
        from vf import selftest_more
        selftest_more.run(rng, quick, chk)
    except ImportError:
        pass
    print("selftest: %d cross-checks in %d groups, %d failures" % (sum(COUNT.values()), len(COUNT), len(FAILS)))
    for f in FAILS:
        print("ORACLE-DISAGREEMENT", f)
    sys.exit(2 if FAILS else 0)


if __name__ == "__main__":
    main()
