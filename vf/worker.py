"""One interpreter = one PYTHONHASHSEED = one slice of a property's case space.

usage: python -B -m vf.worker --prop C01 --tier quick --seed 0 --slice 0 --nslices 4 --out f.json
       python -B -m vf.worker --prop C01 --replay file.json
"""
import argparse
import importlib
import json
import os
import random
import sys
import time

from vf import core


class Stats:
    def __init__(self):
        self.evaluations = 0
        self.nontrivial = set()
        self.samples = []
        self.classes = {}
        self.extra = {}

    def cls(self, name, n=1):
        self.classes[name] = self.classes.get(name, 0) + n

    def note(self, case, nontrivial):
        self.evaluations += 1
        if nontrivial:
            h = core.case_hash(case)
            if h not in self.nontrivial:
                self.nontrivial.add(h)
                if len(self.samples) < 3:
                    self.samples.append(core.jsonable(case))


def call(f, *a, **k):
    """invoke library code from a workload; exceptions are the monitors' business"""
    try:
        return True, f(*a, **k)
    except (core.CaseTimeout, core.StepBudgetExceeded):
        raise
    except RecursionError as e:
        return False, e
    except Exception as e:      # noqa
        return False, e


def drive(mod, cases, stats, timeout, deadline=None):
    for c in cases:
        if deadline is not None and time.time() > deadline:
            stats.extra["stopped_at_deadline"] = True
            break
        tags = ()
        try:
            with core.case(c):
                with core.watchdog(timeout):
                    nt = mod.run_case(c, stats)
            stats.note(c, nt)
        except core.CaseTimeout:
            core.LOG.inconc("watchdog")
            core.LOG.depth = 0
            core.LOG.in_oracle = 0
        except core.StepBudgetExceeded:
            core.LOG.inconc("unhandled_step_budget")
            core.LOG.depth = 0
            core.LOG.in_oracle = 0
        except RecursionError:
            core.LOG.inconc("recursion_in_harness")
            core.LOG.depth = 0
            core.LOG.in_oracle = 0


def load(prop):
    return importlib.import_module("vf.props." + prop.lower())


def main(argv=None):
    ap = argparse.ArgumentParser()
    ap.add_argument("--prop", required=True)
    ap.add_argument("--tier", default="quick")
    ap.add_argument("--seed", type=int, default=0)
    ap.add_argument("--slice", type=int, default=0)
    ap.add_argument("--nslices", type=int, default=1)
    ap.add_argument("--out")
    ap.add_argument("--replay")
    ap.add_argument("--repo", default="/repo")
    ap.add_argument("--budget", type=float, default=None, help="wall seconds (soft stop)")
    a = ap.parse_args(argv)

    import pyformlang
    here = os.path.realpath(os.path.dirname(pyformlang.__file__))
    want = os.path.realpath(os.path.join(a.repo, "pyformlang"))
    if here != want:
        print("INCONCLUSIVE property=%s reason=pyformlang imported from %s not %s" % (a.prop, here, want))
        sys.exit(2)

    if os.environ.get("VF_LINECOV"):
        core.start_line_coverage(os.path.join(a.repo, "pyformlang"))
    mod = load(a.prop)
    core.ACTIVE.add(a.prop)
    mod.install()
    anchors_missing, anchors_internal = [], []
    if hasattr(mod, "anchors"):
        found, anchors_missing = core.resolve_anchors(mod.anchors)
        core.watch_anchors(found)
        anchors_internal = sorted({core._code_of(f).co_qualname for f in found if core.internal_anchor(f)})
    stats = Stats()
    t0 = time.time()
    if a.replay:
        rec = json.load(open(a.replay))
        c = rec["case"]
        drive(mod, [c], stats, 120)
        same = [v for v in core.LOG.violations
                if v["sub_claim"] == rec.get("sub_claim") and v["failure_mode"] == rec.get("failure_mode")]
        for v in core.LOG.violations:
            print("REPLAY-OBSERVED sub_claim=%s failure_mode=%s tags=%s detail=%s" % (
                v["sub_claim"], v["failure_mode"], ",".join(v["tags"]), json.dumps(v["detail"])[:400]))
        if same:
            print("REPLAY-RESULT reproduced")
            sys.exit(1)
        print("REPLAY-RESULT not reproduced (%d other observations)" % len(core.LOG.violations))
        sys.exit(0)

    rng = random.Random("%d:%s:%d" % (a.seed, a.prop, a.slice))
    deadline = t0 + a.budget if a.budget else None
    timeout = mod.TIERS[a.tier].get("case_timeout", 20 if a.tier == "quick" else 60)
    cases = mod.plan(a.tier, rng, a.slice, a.nslices, stats)
    drive(mod, cases, stats, timeout, deadline)
    out = {
        "prop": a.prop, "tier": a.tier, "seed": a.seed, "slice": a.slice,
        "hashseed": os.environ.get("PYTHONHASHSEED"),
        "evaluations": stats.evaluations,
        "nontrivial": sorted(stats.nontrivial),
        "samples": stats.samples,
        "classes": stats.classes,
        "extra": stats.extra,
        "counters": core.LOG.counters,
        "violations": core.LOG.violations,
        "discarded": core.LOG.discarded,
        "inconclusive": core.LOG.inconclusive,
        "contract_errors": core.LOG.contract_errors,
        "nested_calls": core.LOG.nested,
        "top_calls": core.LOG.top,
        "orders": len(core.LOG.orders),
        "order_hashes": sorted(core.LOG.orders)[:20000],
        "anchors": core.anchor_hits(),
        "anchors_missing": anchors_missing,
        "anchors_internal": anchors_internal,
        "wall_s": time.time() - t0,
    }
    if os.environ.get("VF_LINECOV"):
        out["lines_hit"] = core.line_coverage()
    with open(a.out, "w") as f:
        json.dump(out, f)


if __name__ == "__main__":
    main()
