"""Reference validators for parse trees and derivations (shared by C14, C15, C18)."""


def node_sym(v):
    from pyformlang.cfg import Variable, Terminal
    if isinstance(v, Variable):
        return ("V", v.value)
    if isinstance(v, Terminal):
        return ("T", v.value)
    return ("?", repr(v))


def validate_tree(tree, ref, word, allow_eps_leaf_variable=True, max_nodes=5000):
    """-> None if the tree is a derivation tree of `word` in grammar `ref`, else a failure-mode string"""
    prods = set(ref.prods)
    seen = set()
    leaves = []
    stack = [(tree, 0)]
    count = 0
    # iterative pre-order, keeping left-to-right leaf order
    order = []

    def walk(node):
        """pre-order, left to right; a node that is its own ancestor is a cycle (a violation); the same
        sub-tree object used at two places (e.g. one epsilon sub-tree shared by two sons) is not demanded
        to be duplicated by the property and is accepted"""
        nonlocal count
        onpath = set()
        todo = [("enter", node)]
        while todo:
            what, n = todo.pop()
            if what == "leave":
                onpath.discard(id(n))
                continue
            if id(n) in onpath:
                return "cyclic-tree"
            count += 1
            if count > max_nodes:
                return "tree-too-large"
            sym = node_sym(n.value)
            sons = list(n.sons)
            if sons:
                if sym[0] != "V":
                    return "terminal-with-children"
                body = tuple(node_sym(s.value) for s in sons)
                if (sym[1], body) not in prods:
                    return "node-is-not-a-production"
                onpath.add(id(n))
                todo.append(("leave", n))
                for s_ in reversed(sons):
                    todo.append(("enter", s_))
            else:
                if sym[0] == "V":
                    if (sym[1], ()) not in prods:
                        return "childless-variable-without-epsilon-production"
                elif sym[0] == "T":
                    order.append(sym[1])
                else:
                    return "unknown-node-value"
        return None
    err = walk(tree)
    if err:
        return err
    root = node_sym(tree.value)
    if root != ("V", ref.start):
        return "root-is-not-start-symbol"
    if tuple(order) != tuple(word):
        return "leaves-do-not-spell-word"
    return None


def validate_derivation(lines, ref, root, word, leftmost=True):
    """lines: list of lists of CFG objects"""
    prods = {}
    for h, b in ref.prods:
        prods.setdefault(h, set()).add(b)
    if not lines:
        return "empty-derivation"
    seq = [[node_sym(x) for x in line] for line in lines]
    if seq[0] != [root]:
        return "does-not-start-at-root"
    for a, b in zip(seq, seq[1:]):
        idxs = [i for i, s in enumerate(a) if s[0] == "V"]
        if not idxs:
            return "step-after-terminal-form"
        i = idxs[0] if leftmost else idxs[-1]
        ok = False
        for body in prods.get(a[i][1], ()):
            if a[:i] + list(body) + a[i + 1:] == b:
                ok = True
                break
        if not ok:
            # distinguish 'rewrote another variable' from 'no production gives that step'
            for j in idxs:
                for body in prods.get(a[j][1], ()):
                    if a[:j] + list(body) + a[j + 1:] == b:
                        return "not-%s-variable" % ("leftmost" if leftmost else "rightmost")
            return "step-is-not-one-production"
    last = seq[-1]
    if any(s[0] != "T" for s in last):
        return "does-not-end-in-terminals"
    if tuple(s[1] for s in last) != tuple(word):
        return "does-not-end-in-word"
    return None
