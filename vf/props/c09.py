"""C09 - clean-up passes and Chomsky normal form keep the language and the promised shape."""
from vf import core, extract
from vf.gen import cfg as gcfg
from vf.props.cfgcommon import ref_of, tags_of
from vf.worker import call

PROP = "C09"
N = 6
RULE = ("grammars as in C08 plus empty-language grammars, A->A and unit cycles, nullable chains, long bodies sharing "
        "suffixes; every call of remove_useless_symbols / remove_epsilon / eliminate_unit_productions / to_normal_form "
        "(also the nested calls inside the normal-form pipeline) is judged: bounded language equality on all words <=%d "
        "(minus the empty word where documented) and the promised shape evaluated reference-side on the extracted "
        "result; is_normal_form() compared with the reference predicate. Non-trivial: the grammar has a non-empty "
        "bounded language and >=2 productions; distinct = case hash." % N)
ASSUMPTIONS = ["language equality is checked for words of length <= %d only (CFG equivalence is undecidable)" % N]
TIERS = {
    "quick": {"workers": 4, "random": 4000},
    "thorough": {"workers": 16, "random": 40000, "pytest": True, "exhaustive": True, "hard_timeout": 3000},
}
MIN = {"quick": {"C09.CFG.remove_useless_symbols": 3000, "C09.CFG.remove_epsilon": 3000,
                 "C09.CFG.eliminate_unit_productions": 3000, "C09.CFG.to_normal_form": 3000,
                 "C09.CFG.is_normal_form": 1000},
       "thorough": {"C09.CFG.to_normal_form": 100000}}


def anchors():
    from pyformlang.cfg import CFG
    from pyformlang.cfg import utils_cfg
    return [CFG._get_generating_or_nullable, CFG.get_unit_pairs, CFG._decompose_productions,
            CFG._get_productions_with_only_single_terminals, utils_cfg.remove_nullable_production_sub]


def pre(self, args, kwargs):
    return ref_of(self)


def make_post(name, drop_eps, shape):
    def post(ref, self, args, kwargs, result, exc):
        tags = tags_of(ref)
        if exc is not None:
            core.report(PROP, name, "exception:" + type(exc).__name__, {"msg": str(exc)[:80]}, tags)
            return
        res = ref_of(result)
        exp = set(ref.words(N))
        got = set(res.words(N))
        if drop_eps:
            exp.discard(())
        if exp != got:
            miss, extra = exp - got, got - exp
            w = min(miss or extra, key=len)
            core.report(PROP, name, "missing-word" if miss else "extra-word", {"word": list(w)}, tags)
        for mode in shape(ref, res):
            core.report(PROP, name, "shape:" + mode, None, tags)
        if extract.cfg(self).key() != ref.key():
            core.report(PROP, name, "operand-mutated", None, tags)
    return post


def shape_useless(ref, res):
    out = []
    if res.is_empty():
        # nothing is generating: no production may survive
        if res.prods:
            out.append("useless-production-kept")
        return out
    gen = res.generating()
    reach = res.reachable()
    for h, b in res.prods:
        for kind, x in [("V", h)] + list(b):
            if kind == "V" and (x not in gen or ("V", x) not in reach):
                out.append("useless-variable-in-production")
                return out
            if kind == "T" and ("T", x) not in reach:
                out.append("useless-terminal-in-production")
                return out
    for v in res.variables:
        if v != res.start and (v not in gen or ("V", v) not in reach):
            out.append("useless-variable-declared")
            break
    for t in res.terminals:
        if ("T", t) not in reach:
            out.append("useless-terminal-declared")
            break
    return out


def shape_eps(ref, res):
    return ["epsilon-production-left"] if res.has_eps_prod() else []


def shape_unit(ref, res):
    return ["unit-production-left"] if res.has_unit_prod() else []


def shape_cnf(ref, res):
    return [] if res.is_cnf() else ["not-chomsky"]


def post_is_nf(ref, self, args, kwargs, result, exc):
    if exc is not None:
        core.report(PROP, "is_normal_form", "exception:" + type(exc).__name__, None, tags_of(ref))
    elif bool(result) != ref.is_cnf():
        core.report(PROP, "is_normal_form", "wrong-true" if result else "wrong-false", None, tags_of(ref))


def install():
    from pyformlang.cfg import CFG
    m = core.monitored
    m(CFG, "remove_useless_symbols", PROP, pre, make_post("remove_useless_symbols", False, shape_useless))
    m(CFG, "remove_epsilon", PROP, pre, make_post("remove_epsilon", True, shape_eps))
    m(CFG, "eliminate_unit_productions", PROP, pre, make_post("eliminate_unit_productions", False, shape_unit))
    m(CFG, "to_normal_form", PROP, pre, make_post("to_normal_form", True, shape_cnf))
    m(CFG, "is_normal_form", PROP, pre, post_is_nf)


def special(rng):
    """shapes the random generator rarely hits"""
    how = rng.choice(["unit_cycle", "nullable_chain", "shared_suffix", "self_unit", "empty", "cnf_names", "cnf_names"])
    if how == "cnf_names":
        # the grammar already owns helper-like variables C#CNF#k with gaps, and several long bodies with shared
        # inner suffixes, in varying production order
        T = lambda i: ["T", i]
        V = lambda i: ["V", i]
        suf = [T(0), V(1), T(1)]
        prods = [[0, [T(1), T(0)] + suf], [0, [V(1), T(1)] + suf[1:]], [0, [T(0), T(0), T(1), T(1)] + suf[1:]],
                 [1, [T(0)]], [1, [T(1), V(2), T(0), T(1)]], [2, [T(1)]], [2, [T(0), T(0)] + suf[1:]]]
        rng.shuffle(prods)
        prods = prods[:rng.randint(4, 7)]
        if not any(p[0] == 0 for p in prods):
            prods.append([0, [V(1), T(0)]])
        return {"nv": 3, "nt": 2, "start": 0, "prods": prods, "vc": "cnfnames", "as_set": rng.random() < 0.5}
    if how == "unit_cycle":
        n = rng.randint(2, 3)
        prods = [[i, [["V", (i + 1) % n]]] for i in range(n)] + [[rng.randrange(n), [["T", 0]]]]
        if rng.random() < 0.5:
            prods.append([0, [["T", 1], ["V", 1]]])
        return {"nv": n, "nt": 2, "start": 0, "prods": prods, "vc": "str"}
    if how == "nullable_chain":
        prods = [[0, [["V", 1], ["V", 2]]], [1, [["V", 2]]], [1, [["T", 0]]], [2, []], [2, [["T", 1], ["V", 2]]]]
        if rng.random() < 0.5:
            prods.append([0, [["V", 1], ["T", 0], ["V", 2], ["V", 1]]])
        return {"nv": 3, "nt": 2, "start": 0, "prods": prods, "vc": "str"}
    if how == "shared_suffix":
        suf = [["T", 0], ["V", 1], ["T", 1]]
        prods = [[0, [["T", 1]] + suf], [0, [["V", 1]] + suf], [1, [["T", 0], ["T", 0]] + suf[1:]], [1, [["T", 0]]]]
        return {"nv": 2, "nt": 2, "start": 0, "prods": prods, "vc": rng.choice(["str", "reserved"])}
    if how == "self_unit":
        prods = [[0, [["V", 0]]], [0, [["T", 0]]]]
        if rng.random() < 0.5:
            prods.append([0, [["T", 0], ["V", 0], ["T", 1]]])
        return {"nv": 1, "nt": 2, "start": 0, "prods": prods, "vc": "str"}
    prods = [[0, [["V", 1], ["T", 0]]], [1, [["V", 1], ["T", 1]]]]
    return {"nv": 2, "nt": 2, "start": 0, "prods": prods, "vc": "str"}


def plan(tier, rng, sl, nslices, stats):
    cfg = TIERS[tier]
    for i in range(cfg["random"]):
        if i % 8 == 0:
            yield special(rng)
        elif i % 400 == 39:
            yield gcfg.long_body_case(rng)
        elif i % 400 == 79 and sl == 0:
            yield gcfg.wide_case(rng)
        elif i % 40 == 39:
            yield gcfg.large_case(rng)
        else:
            yield gcfg.random_case(rng, max_terms=2, max_body=rng.choice([2, 3, 4, 5]))
    if cfg.get("exhaustive"):
        tot = 0
        for i, c in enumerate(gcfg.exhaustive_cases(3)):
            tot += 1
            if i % nslices == sl:
                yield c
        stats.extra["exhaustive_complete"] = True
        stats.extra["exhaustive_scopes"] = "all %d grammars with 2 variables, 2 terminals, <=3 productions of body length <=2" % tot


def run_case(c, stats):
    g = gcfg.build(c)
    stats.cls("vc:" + c["vc"])
    with core.oracle_mode():
        ref = ref_of(g)
        for t in tags_of(ref):
            stats.cls("tag:" + t)
        nt = len(ref.prods) >= 2 and bool(ref.words(N))
    k = c["nv"] + len(c["prods"])
    if k % 3 == 0:
        # the empty word is asked FIRST of the fresh object (its counters are used before anything is cached)
        call(g.contains, [])
    elif k % 3 == 1:
        call(g.generate_epsilon)
    call(g.is_normal_form)
    # the four passes on the same object, in an order that depends on the case (what one pass caches, the next reads)
    res = {}
    passes = ["remove_useless_symbols", "remove_epsilon", "eliminate_unit_productions", "to_normal_form"]
    rot = (k // 3) % 4
    for name in passes[rot:] + passes[:rot]:
        okp, r_ = call(getattr(g, name))
        res[name] = r_ if okp else None
    u, e, n, nf = (res[x] for x in passes)
    ok = nf is not None
    if e is not None:
        call(e.is_normal_form)
    if ok:
        call(nf.is_normal_form)
        call(nf.to_normal_form)
    # passes applied to the results of passes (analyses cached on the source may travel with the result)
    for r in (u, e, n):
        if r is not None and not isinstance(r, BaseException):
            call(r.remove_useless_symbols)
            call(r.is_normal_form)
    if ok and not isinstance(e, BaseException):
        pass
    ok2, e2 = call(g.remove_epsilon)
    if ok2:
        call(e2.remove_useless_symbols)
        call(e2.eliminate_unit_productions)
        call(e2.to_normal_form)
    g2 = gcfg.build(c)
    call(g2.to_normal_form)          # fresh object: normal form without the earlier analyses cached
    if c.get("longbody") and nf is not None:
        # a grammar that already holds ten or more helper variables gets new long productions and is normalised again
        from pyformlang.cfg import CFG, Production, Terminal
        s_ = g.start_symbol
        t0_, t1_, t2_ = (Terminal(gcfg.tval(c, j)) for j in range(3))
        for extra in ([t0_, s_, t1_, t2_], [t1_, t1_, s_], [s_, t2_, t0_, t0_, t1_]):
            ok4, g3 = call(CFG, start_symbol=s_, productions=set(nf.productions) | {Production(s_, extra)})
            if ok4:
                ok5, nf3 = call(g3.to_normal_form)
                if ok5:
                    call(nf3.to_normal_form)
    return nt
