"""C05 - Regex text semantics in every representation."""
import re
import weakref

from vf import values
from vf import core, extract
from vf.ref import nfa as rn
from vf.ref import regexsem as rs
from vf.worker import call

PROP = "C05"
TECHNIQUE = "runtime contracts with shadow state: every Regex object carries the reference denotation of the text it was parsed from (independent parser), compared at every later call"
RULE = ("regex texts rendered from random ASTs (depth <=4, tokens a b cd x1, escaped operators, epsilon/$; minimal or "
        "redundant parentheses, ' ' or '.' concatenation, '|' or '+' union, varied blanks) and ill-formed texts obtained "
        "by deleting/duplicating/swapping one token or from a hand list; a shadow denotation (independent parser -> "
        "reference NFA, cross-checked with Python re) is attached to every Regex object at construction and compared "
        "on accepts (all words <=3 + a foreign token), to_epsilon_nfa (exact equivalence), to_cfg (contains on words "
        "<=3), union/concatenate/kleene_star and operator forms, and str() re-parse. Non-trivial: AST has >=1 operator; "
        "distinct = distinct text."
        ' Later additions: words as tuples and one-shot iterables; operands queried after their combination was built and queried; to_cfg with a starting symbol chosen by the caller (also one spelt like the helper variables A0, A1, ...).')
ASSUMPTIONS = ["ill-formed texts where the documented grammar is silent (trailing binary operator, empty group, empty "
               "string, doubled star) may be accepted or refused, but only with MisformedRegexError",
               "to_cfg comparison is bounded (words of length <= 3)"]
TIERS = {
    "quick": {"workers": 4, "random": 500, "ill": 250},
    "thorough": {"workers": 16, "random": 5000, "ill": 2500, "pytest": True, "exhaustive": True, "hard_timeout": 3000},
}
MIN = {"quick": {"C05.Regex.__init__": 2000, "C05.Regex.accepts": 5000, "C05.Regex.to_epsilon_nfa": 500,
                 "C05.Regex.to_cfg": 300, "C05.Regex.__repr__": 300, "C05.Regex.union": 200,
                 "C05.Regex.concatenate": 200, "C05.Regex.kleene_star": 200, "C05.ill-formed": 300},
       "thorough": {"C05.Regex.__init__": 50000, "C05.Regex.accepts": 100000}}

SHADOW = weakref.WeakKeyDictionary()     # Regex object -> (ref NFA, ast or None)
CROSS = {"n": 0}


def anchors():
    from pyformlang.regular_expression import regex_reader, Regex
    return [regex_reader._pre_process_regex, regex_reader._get_regex_componants,
            regex_reader.RegexReader._compute_precedence, regex_reader.RegexReader._setup_non_trivial_regex,
            Regex._process_to_enfa]


def tags_text(text):
    t = []
    if "\\" in text:
        t.append("escape")
    if "()" in text.replace(" ", ""):
        t.append("empty_group")
    return t


def post_init(st, self, args, kwargs, result, exc):
    from pyformlang.regular_expression import MisformedRegexError
    text = args[0] if args else kwargs.get("regex")
    if not isinstance(text, str):
        return
    cls = rs.classify(text)
    tags = tags_text(text) + ["class:" + cls]
    if exc is not None:
        if not isinstance(exc, MisformedRegexError):
            core.report(PROP, "construct", "exception:" + type(exc).__name__, {"text": text, "class": cls}, tags)
        elif cls == "well":
            core.report(PROP, "construct", "well-formed-refused", {"text": text}, tags)
        return
    if cls == "must-refuse":
        core.report(PROP, "construct", "ill-formed-accepted", {"text": text}, tags)
        return
    if cls == "well":
        ast = rs.parse(text)
        SHADOW[self] = (rs.to_nfa(ast), ast)


def pre_shadow(self, args, kwargs):
    return SHADOW.get(self)


def word_vals(word):
    try:
        w = values.items_of(word)
    except TypeError:
        return None
    out = []
    for x in w:
        v = getattr(x, "value", x)
        if v in ("epsilon", "ɛ"):
            return None
        out.append(v)
    return out


def post_accepts(sh, self, args, kwargs, result, exc):
    if sh is None:
        core.LOG.discard("no_shadow")
        return
    w = word_vals(args[0])
    if w is None:
        return
    if exc is not None:
        core.report(PROP, "accepts", "exception:" + type(exc).__name__, {"word": w, "ast": sh[1]})
        return
    if bool(result) != sh[0].accepts(w):
        core.report(PROP, "accepts", "wrong-accept" if result else "wrong-reject", {"word": w, "ast": sh[1]})


def post_enfa(sh, self, args, kwargs, result, exc):
    if sh is None:
        core.LOG.discard("no_shadow")
        return
    if exc is not None:
        core.report(PROP, "to_epsilon_nfa", "exception:" + type(exc).__name__, {"ast": sh[1]})
        return
    w = rn.equiv(sh[0], extract.fa(result))
    if w is not None:
        core.report(PROP, "to_epsilon_nfa", "language-differs", {"word": w, "ast": sh[1]})


def post_cfg(sh, self, args, kwargs, result, exc):
    if sh is None:
        core.LOG.discard("no_shadow")
        return
    if exc is not None:
        core.report(PROP, "to_cfg", "exception:" + type(exc).__name__, {"ast": sh[1]})
        return
    from pyformlang.cfg import Variable
    st = args[0] if args else kwargs.get("starting_symbol", "S")
    if result.start_symbol != (st if isinstance(st, Variable) else Variable(st)):
        core.report(PROP, "to_cfg", "start-symbol-differs-from-the-one-asked-for", {"ast": sh[1], "asked": repr(st)})
        return
    alpha = sorted(sh[0].alpha)[:3]
    for wd in rn.all_words(alpha + ["zz_foreign"], 3 if len(alpha) <= 2 else 2):
        try:
            got = result.contains(list(wd))
        except Exception as e:
            core.report(PROP, "to_cfg", "contains-exception:" + type(e).__name__, {"word": list(wd), "ast": sh[1]})
            return
        if bool(got) != sh[0].accepts(wd):
            core.report(PROP, "to_cfg", "wrong-accept" if got else "wrong-reject", {"word": list(wd), "ast": sh[1]})
            return


def make_post_comb(name, op, binary):
    def post(sh, self, args, kwargs, result, exc):
        other = SHADOW.get(args[0]) if binary else None
        if sh is None or (binary and other is None):
            core.LOG.discard("no_shadow")
            return
        if exc is not None:
            core.report(PROP, name, "exception:" + type(exc).__name__, {"ast": sh[1]})
            return
        if binary:
            SHADOW[result] = (op(sh[0], other[0]), (name, sh[1], other[1]))
        else:
            SHADOW[result] = (op(sh[0]), (name, sh[1]))
    return post


def post_repr(sh, self, args, kwargs, result, exc):
    from pyformlang.regular_expression import Regex
    if sh is None:
        core.LOG.discard("no_shadow")
        return
    if exc is not None:
        core.report(PROP, "str", "exception:" + type(exc).__name__, {"ast": sh[1]})
        return
    tags = ["escaped_symbol"] if any(s in rs.ESCAPED or not re.fullmatch(r"\w+", str(s)) for s in sh[0].alpha) else []
    try:
        r2 = Regex(result)
        res = extract.fa(r2.to_epsilon_nfa())
    except Exception as e:
        core.report(PROP, "str", "reparse-exception:" + type(e).__name__, {"str": result[:200], "ast": sh[1]}, tags)
        return
    w = rn.equiv(sh[0], res)
    if w is not None:
        core.report(PROP, "str", "reparse-language-differs", {"str": result[:200], "word": w}, tags)


def install():
    from pyformlang.regular_expression import Regex
    m = core.monitored
    m(Regex, "__init__", PROP, None, post_init)
    m(Regex, "accepts", PROP, pre_shadow, post_accepts)
    m(Regex, "to_epsilon_nfa", PROP, pre_shadow, post_enfa)
    m(Regex, "to_cfg", PROP, pre_shadow, post_cfg)
    m(Regex, "union", PROP, pre_shadow, make_post_comb("union", rn.union, True))
    m(Regex, "concatenate", PROP, pre_shadow, make_post_comb("concatenate", rn.concat, True))
    m(Regex, "kleene_star", PROP, pre_shadow, make_post_comb("kleene_star", rn.star, False))
    m(Regex, "__repr__", PROP, pre_shadow, post_repr)


# ---------------------------------------------------------------- workload

HAND_ILL = ["a |", "| a", "a **", "(a", "a)", "()", "a | | b", "*", "a (", "a . . b", "a +", "(a|)", "( )",
            "a ( ) b", "", " ", "a*|", ".a", "a.", "(|)", "a|*", "(*)", ")(", "a (b", "((a)", "a))", "+", ".",
            "a + * b", "( * a )", "a | . b", "\\", "a \\", "(a . )", "$ *", "* $", "epsilon |", "a b )", "( a b"]


def mutate(rng, text):
    toks = re.findall(r"\\.|epsilon|[A-Za-z0-9]+|[.|+*()$]", text)
    if not toks:
        return text
    i = rng.randrange(len(toks))
    how = rng.choice(["del", "dup", "swap", "ins"])
    if how == "del":
        toks.pop(i)
    elif how == "dup":
        toks.insert(i, toks[i])
    elif how == "swap" and len(toks) > 1:
        j = (i + 1) % len(toks)
        toks[i], toks[j] = toks[j], toks[i]
    else:
        toks.insert(i, rng.choice(["(", ")", "|", "*", ".", "+", "()", "()", "(())"]))
    return " ".join(toks)


def plan(tier, rng, sl, nslices, stats):
    cfg = TIERS[tier]
    for _ in range(cfg["random"]):
        ast = rs.gen_ast(rng, rng.choice([1, 2, 3, 4, 4, 5, 6]))
        text = rs.render(ast, rng, redundant=rng.choice([0, 0, 0.3]))
        ast2 = rs.gen_ast(rng, rng.choice([0, 1, 2]))
        yield {"text": text, "text2": rs.render(ast2, rng), "kind": "well"}
    for i in range(cfg["ill"]):
        if rng.random() < 0.25:
            text = rng.choice(HAND_ILL)
        else:
            text = mutate(rng, rs.render(rs.gen_ast(rng, rng.choice([1, 2, 3])), rng, spacing=False))
        yield {"text": text, "kind": "mutated"}
    if cfg.get("exhaustive"):
        asts = rs.all_asts(2)
        for i in range(sl, len(asts), nslices):
            for red in (0, 1.0):
                yield {"text": rs.render(asts[i], rng, redundant=red, spacing=False), "kind": "well", "exh": 1}
        stats.extra["exhaustive_complete"] = True
        stats.extra["exhaustive_scopes"] = "all %d ASTs of depth <=2 over {a,b,eps}, minimal and fully parenthesised rendering" % len(asts)


def run_case(c, stats):
    from pyformlang.regular_expression import Regex
    text = c["text"]
    with core.oracle_mode():
        cls = rs.classify(text)
        stats.cls("class:" + cls)
        if c["kind"] == "mutated":
            core.LOG.count("C05.ill-formed")
        nt = False
        if cls == "well":
            ast = rs.parse(text)
            nt = ast[0] not in ("sym", "eps")
            # oracle cross-check: reference NFA vs Python re on all words <= 4 (an oracle disagreement is a monitor bug)
            ref = rs.to_nfa(ast)
            syms = sorted(ref.alpha)
            chmap = {s: chr(ord("A") + i) for i, s in enumerate(syms)}
            if len(syms) <= 3:
                pat = re.compile(rs.to_py(ast, chmap))
                for wd in rn.all_words(syms, 4 if len(syms) <= 2 else 3):
                    if ref.accepts(wd) != (pat.fullmatch("".join(chmap[s] for s in wd)) is not None):
                        raise AssertionError("oracle routes disagree on %r %r" % (text, wd))
                core.LOG.count("C05.oracle_crosschecks")
    ok, r = call(Regex, text)
    if not ok or cls != "well":
        if ok:
            # lenient text that was accepted: it must at least be usable without other failures
            for f in (lambda: r.accepts(["a"]), r.to_epsilon_nfa, lambda: str(r)):
                try:
                    f()
                except Exception as e:
                    with core.oracle_mode():
                        core.report(PROP, "construct", "lenient-text-unusable:" + type(e).__name__, {"text": text},
                                    tags_text(text))
                    break
            else:
                # whatever the lenient reading is, all representations denote the same language
                try:
                    syms_l = sorted({t for t in re.findall(r"[A-Za-z0-9]+", text) if t != "epsilon"})[:2] or ["a"]
                    enfa = r.to_epsilon_nfa()
                    g_l = r.to_cfg()
                    for wd in rn.all_words(syms_l, 2):
                        a1, a2, a3 = bool(r.accepts(list(wd))), bool(enfa.accepts(list(wd))), bool(g_l.contains(list(wd)))
                        if not (a1 == a2 == a3):
                            with core.oracle_mode():
                                core.report(PROP, "construct", "representations-of-lenient-text-disagree",
                                            {"text": text, "word": list(wd), "accepts/enfa/cfg": [a1, a2, a3]},
                                            tags_text(text))
                            break
                    core.LOG.count("C05.lenient_consistency")
                except Exception:      # noqa  (already reported as unusable where it matters)
                    pass
        return False
    syms = sorted(ref.alpha)[:3]
    for i, wd in enumerate(rn.all_words(syms + ["zz_foreign"], 3 if len(syms) <= 2 else 2)):
        call(r.accepts, values.word_form(wd, i))
    import random as _random
    for wd in ref.sample_words(_random.Random(len(text)), 5, 10):
        call(r.accepts, list(wd))          # long words along random walks of the reference automaton
    call(r.to_epsilon_nfa)
    call(r.accepts, syms[:1])          # again after the conversion (cached automaton)
    call(r.to_cfg)
    if len(text) % 3 == 0:
        # a starting symbol chosen by the caller, also one that is spelt like the conversion's own helper variables
        from pyformlang.cfg import Variable
        for st in (["A0", "A1", "Start"], ["A2", Variable("A1"), "A3"], ["S", "A10", Variable("A0")])[len(text) // 3 % 3]:
            call(r.to_cfg, st)
            call(r.to_cfg, starting_symbol=st)
    call(str, r)
    if "text2" in c:
        ok2, r2 = call(Regex, c["text2"])
        if ok2:
            for comb in (lambda: r.union(r2), lambda: r.concatenate(r2), lambda: r.kleene_star(),
                         lambda: r | r2, lambda: r + r2, lambda: r2.concatenate(r), lambda: r.union(r)):
                okc, x = call(comb)
                if okc:
                    with core.oracle_mode():
                        sh = SHADOW.get(x)
                    if sh is not None:
                        al = sorted(sh[0].alpha)[:3]
                        for wd in rn.all_words(al, 2):
                            call(x.accepts, list(wd))
                        call(x.to_epsilon_nfa)
                        call(str, x)
                        call(x.to_cfg)
            # the operands after they were combined and the combinations queried: r2 is asked for the first time
            with core.oracle_mode():
                sh2 = SHADOW.get(r2)
            if sh2 is not None:
                for wd in rn.all_words(sorted(sh2[0].alpha | set(syms))[:3], 2):
                    call(r2.accepts, list(wd))
                    call(r.accepts, list(wd))
    return nt
