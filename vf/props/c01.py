"""C01 - acceptance and language-preserving conversions (determinise / eps-removal / minimise / copy)."""
from vf import values
from vf import core, extract
from vf.gen import fa as gfa
from vf.ref import nfa as rn
from vf.worker import call

PROP = "C01"
RULE = ("cases: eps-NFA/NFA/DFA built through the public API from canonical records (random <=5 states, "
        "<=3 symbols, 0-3 start states, eps cycles, unreachable/dead states, declared-but-unused symbols; "
        "6 value classes incl. merged-name look-alikes, mixed 1/'1', tuples and order-injection keys; "
        "shuffled construction order; thorough additionally enumerates every eps-NFA with <=2 states over 1 symbol "
        "and slices of 2 states/2 symbols). "
        "A case is non-trivial when it has >=1 transition and its language is neither empty nor Sigma*; "
        "distinct = distinct canonical-case hash."
        " Later additions: construction through the constructor (declared states, a ready-made transition function) and add_transitions; epsilon spelled 'epsilon' / Epsilon() / the letter; equal-hash and print-alike values; words as lists, tuples, one-shot iterables and Symbol objects; edit scripts (also refused and count-preserving edits, epsilon edits) followed by the same queries; the automaton is also compared with the case record it was built from.")
ASSUMPTIONS = ["epsilon spelled as a word symbol ('epsilon' inside a word) is not judged (classes differ by design)"]
TIERS = {
    "quick": {"workers": 4, "random": 1500, "words": 3},
    "thorough": {"workers": 16, "random": 20000, "words": 4, "exhaustive": True, "pytest": True,
                 "hard_timeout": 3000},
}
MIN = {"quick": {"C01.EpsilonNFA.accepts": 200, "C01.EpsilonNFA.to_deterministic": 200,
                 "C01.EpsilonNFA.remove_epsilon_transitions": 200, "C01.DeterministicFiniteAutomaton.minimize": 200,
                 "C01.EpsilonNFA.copy": 100, "C01.DeterministicFiniteAutomaton.accepts": 200,
                 "C01.NondeterministicFiniteAutomaton.accepts": 200},
       "thorough": {"C01.EpsilonNFA.accepts": 5000, "C01.EpsilonNFA.to_deterministic": 5000,
                    "C01.DeterministicFiniteAutomaton.minimize": 5000}}


def anchors():
    from pyformlang.finite_automaton import EpsilonNFA, DeterministicFiniteAutomaton
    return [EpsilonNFA.eclose, EpsilonNFA._to_deterministic_internal,
            EpsilonNFA.remove_epsilon_transitions, DeterministicFiniteAutomaton._get_partition]


def str_collision(ref):
    """do two distinct subsets of states (plus the implicit trash state) get the same merged name,
    i.e. the same sorted ';'-join of str(value)?  exact for <= 9 states"""
    strs = [str(v) for v in ref.states]
    if len(set(strs)) < len(strs) or "TRASH" in strs:
        return True
    if not any(";" in s for s in strs):
        return False
    if len(strs) > 9:
        return True
    strs = strs + ["TRASH"]
    seen = set()
    for mask in range(1, 1 << len(strs)):
        name = ";".join(sorted(strs[i] for i in range(len(strs)) if mask >> i & 1))
        if name in seen:
            return True
        seen.add(name)
    return False


def word_values(word):
    """word items -> symbol values; None if the word contains an epsilon spelling (not judged)"""
    from pyformlang.finite_automaton import Symbol, Epsilon
    out = []
    for x in word:
        if isinstance(x, Epsilon) or (isinstance(x, str) and x in ("epsilon", "ɛ")):
            return None
        out.append(x.value if isinstance(x, Symbol) else x)
    return out


# ---------------------------------------------------------------- contracts

def pre_ref(self, args, kwargs):
    return extract.fa(self)


def tags_of(ref):
    t = []
    if str_collision(ref):
        t.append("state_str_collision")
    return t


def post_accepts(ref, self, args, kwargs, result, exc):
    try:
        word = values.items_of(args[0])
    except TypeError:
        return
    w = word_values(word)
    if w is None:
        core.LOG.discard("epsilon_in_word")
        return
    if exc is not None:
        core.report(PROP, "accepts", "exception:" + type(exc).__name__,
                    {"word": w, "cls": extract.fa_kind(self)}, tags_of(ref))
        return
    try:
        exp = ref.accepts(w)
    except TypeError:
        core.LOG.discard("unhashable_word_symbol")
        return
    if bool(result) != exp:
        core.report(PROP, "accepts", "wrong-accept" if result else "wrong-reject",
                    {"word": w, "cls": extract.fa_kind(self)}, tags_of(ref))


def make_post_conv(name, want_det, want_noeps):
    def post(ref, self, args, kwargs, result, exc):
        kind = extract.fa_kind(self)
        sub = name
        if exc is not None:
            core.report(PROP, sub, "exception:" + type(exc).__name__, {"cls": kind}, tags_of(ref))
            return
        res = extract.fa(result)
        core.LOG.orders.add(hash(extract.fa_order(self)) & 0xffffffff)
        w = rn.equiv(ref, res)
        if w is not None:
            mode = "wrong-accept" if res.accepts(w) else "wrong-reject"
            core.report(PROP, sub, mode, {"cls": kind, "word": w}, tags_of(ref))
        if want_det and not res.is_deterministic():
            core.report(PROP, sub, "shape:not-deterministic", {"cls": kind}, tags_of(ref))
        if want_noeps and res.has_eps():
            core.report(PROP, sub, "shape:epsilon-left", {"cls": kind}, tags_of(ref))
        if name == "copy":
            if (res.starts, res.finals, res.trans) != (ref.starts, ref.finals, ref.trans):
                core.report(PROP, sub, "structure-differs", {"cls": kind}, tags_of(ref))
        if want_det:
            from pyformlang.finite_automaton import DeterministicFiniteAutomaton
            if not isinstance(result, DeterministicFiniteAutomaton):
                core.report(PROP, sub, "shape:not-a-DFA-object", {"cls": kind, "got": type(result).__name__})
    return post


def install():
    from pyformlang.finite_automaton import (EpsilonNFA, NondeterministicFiniteAutomaton,
                                             DeterministicFiniteAutomaton)
    for cls in (EpsilonNFA, NondeterministicFiniteAutomaton, DeterministicFiniteAutomaton):
        core.monitored(cls, "accepts", PROP, pre_ref, post_accepts)
        core.monitored(cls, "to_deterministic", PROP, pre_ref, make_post_conv("to_deterministic", True, True))
    core.monitored(EpsilonNFA, "remove_epsilon_transitions", PROP, pre_ref,
                   make_post_conv("remove_epsilon_transitions", False, True))
    for cls in (EpsilonNFA, DeterministicFiniteAutomaton):
        core.monitored(cls, "minimize", PROP, pre_ref, make_post_conv("minimize", True, True))
        core.monitored(cls, "copy", PROP, pre_ref, make_post_conv("copy", False, False))


# ---------------------------------------------------------------- workload

def plan(tier, rng, sl, nslices, stats):
    cfg = TIERS[tier]
    if sl == 0:
        # scale cases (one worker): sizes that small-scope generation never reaches
        for c in (gfa.word_chain_case(1500), gfa.many_classes_case(rng), gfa.many_symbols_case(rng)):
            c["words"] = 0
            yield c
    for i in range(cfg["random"]):
        if i % 25 == 24:
            c = gfa.large_case(rng)
            c["words"] = 2
            yield c
            continue
        c = gfa.random_case(rng)
        c["words"] = cfg["words"]
        yield c
    if cfg.get("exhaustive"):
        # complete scopes: (1 state, 1-2 symbols), (2 states, 1 symbol); sampled: (2 states, 2 symbols)
        for (n, k) in ((1, 1), (1, 2), (2, 1)):
            tot = gfa.exhaustive_count(n, k)
            for idx in range(sl, tot, nslices):
                c = gfa.exhaustive_nth(n, k, idx)
                c["words"] = 3
                c["exh"] = [n, k]
                yield c
        stats.extra["exhaustive_complete"] = True
        stats.extra["exhaustive_scopes"] = "all eps-NFA with (1 state,1 sym),(1,2),(2,1): %d cases" % sum(
            gfa.exhaustive_count(n, k) for n, k in ((1, 1), (1, 2), (2, 1)))
        tot = gfa.exhaustive_count(2, 2)
        for _ in range(6000):
            c = gfa.exhaustive_nth(2, 2, rng.randrange(tot))
            c["words"] = 3
            yield c


def run_case(c, stats):
    from pyformlang.finite_automaton import Symbol
    fa = gfa.build(c)
    kind = c["kind"]
    stats.cls("kind:" + kind)
    stats.cls("vc:" + c["vc"])
    with core.oracle_mode():
        ref = extract.fa(fa)
        nontrivial = bool(ref.trans) and not ref.is_empty() and not rn.complement(ref).is_empty()
        if str_collision(ref):
            stats.cls("state_str_collision")
        # what was added through the public API is what the automaton holds (the contracts below read the
        # structure back from the library object and would not see a transition lost or replaced at construction)
        want = gfa.ref_of_case(c)
        if want is not None:
            core.LOG.count("C01.construction")
            if (ref.trans, ref.starts, ref.finals) != (want.trans, want.starts, want.finals) or \
                    not want.states <= ref.states:
                core.report(PROP, "construct", "automaton-differs-from-what-was-added",
                            {"missing": sorted(map(repr, want.trans - ref.trans))[:3],
                             "extra": sorted(map(repr, ref.trans - want.trans))[:3],
                             "starts": [sorted(map(repr, ref.starts)), sorted(map(repr, want.starts))],
                             "finals": [sorted(map(repr, ref.finals)), sorted(map(repr, want.finals))]},
                            ["kind:" + kind, "form:" + str(c.get("form"))])
    words = list(gfa.words_for(c, c.get("words", 3))) + gfa.long_words(c)
    for i, w in enumerate(words):
        call(fa.accepts, values.word_form(w, i, wrap=Symbol))
    ok, d = call(fa.to_deterministic)
    if ok:
        for w in words[:12]:
            call(d.accepts, w)
        call(d.copy)
    if kind == "enfa" or True:
        ok, n = call(fa.remove_epsilon_transitions)
        if ok:
            for w in words[:12]:
                call(n.accepts, w)
            call(n.to_deterministic)
    ok, m = call(fa.minimize)
    if ok:
        # the distinguishing words of the oracle between input and result are also probed through accepts
        for w in words[:12]:
            call(m.accepts, w)
        call(m.minimize)
    call(fa.copy)
    if len(c["trans"]) % 4 == 1 and c["trans"]:
        # a bystander with the same state and symbol values: built, queried, stripped of its transitions - nothing
        # changes for this automaton
        other = gfa.build(c)
        for w in words[:6]:
            call(other.accepts, w)
        for (p_, a_, q_) in list(other):
            call(other.remove_transition, p_, a_, q_)
        for s_ in list(other.final_states):
            call(other.remove_final_state, s_)
        stats.cls("bystander_edited")
        for w in words[:20]:
            call(fa.accepts, w)
        call(fa.to_deterministic)
        call(fa.minimize)
    if len(c["trans"]) % 3 == 0 and kind != "dfa":
        # what a conversion returns belongs to the caller: every result is edited (all states final, a loop on each
        # start state) and the conversions are asked again - of this automaton and of a fresh equal one
        for conv in ("minimize", "to_deterministic", "remove_epsilon_transitions", "copy"):
            ok, r = call(getattr(fa, conv))
            if not ok:
                continue
            for s_ in list(r.states):
                call(r.add_final_state, s_)
            for s_ in list(r.start_states):
                call(r.add_transition, s_, words[1][0] if len(words) > 1 and words[1] else "a", s_)
            ok2, r2 = call(getattr(fa, conv))
            if ok2:
                for w in words[:6]:
                    call(r2.accepts, w)
            call(getattr(gfa.build(c), conv))
    if c.get("edits"):
        # the automaton is edited through the public mutators and queried again (same object)
        gfa.apply_edits(fa, c, on_refused=lambda e, exc: core.report(
            PROP, "edit", "refused-edit-changed-automaton", {"edit": list(e), "exception": type(exc).__name__},
            ["kind:" + c["kind"]]))
        stats.cls("edited")
        for w in words[:40]:
            call(fa.accepts, w)
        call(fa.to_deterministic)
        call(fa.remove_epsilon_transitions)
        call(fa.minimize)
    return nontrivial
