"""C04 - emptiness, determinism, acyclicity, word enumeration."""
import collections

from vf import core, extract
from vf.gen import fa as gfa
from vf.ref import nfa as rn
from vf.worker import call

PROP = "C04"
TECHNIQUE = "runtime contracts with reference-model oracle; generators drained by the monitor under sys.monitoring step budgets (bounded progress)"
RULE = ("eps-NFA/NFA/DFA cases as in C01 (<=5 states, emphasis on eps cycles, dead states, several/final start "
        "states; <=6 states for is_acyclic); is_empty/bool, is_deterministic, is_acyclic compared with reference "
        "reachability / structural definition / reachable-cycle search; get_accepted_words(n) for n in 0..4 and None "
        "(None only on reference-finite languages, under a logical step budget) drained by the monitor and compared "
        "as a multiset with the reference bounded language. Non-trivial: >=1 transition and a non-empty language; "
        "distinct = canonical case hash."
        ' Later additions: equal-hash symbol values; count-preserving edit scripts followed by enumeration at several bounds.')
ASSUMPTIONS = ["termination is restated as bounded progress: a logical step budget on get_accepted_words"]
TIERS = {
    "quick": {"workers": 8, "random": 3000},
    "thorough": {"workers": 16, "random": 60000, "pytest": True, "exhaustive": True, "hard_timeout": 3000},
}
MIN = {"quick": {"C04.EpsilonNFA.is_empty": 500, "C04.EpsilonNFA.is_deterministic": 200,
                 "C04.FiniteAutomaton.is_acyclic": 500, "C04.words": 2000},
       "thorough": {"C04.EpsilonNFA.is_empty": 10000, "C04.words": 50000}}


def anchors():
    from pyformlang.finite_automaton.finite_automaton import FiniteAutomaton
    from pyformlang.finite_automaton import EpsilonNFA
    return [FiniteAutomaton.get_accepted_words, FiniteAutomaton._get_states_leading_to_final,
            EpsilonNFA.is_empty, FiniteAutomaton.is_acyclic]


def pre(self, args, kwargs):
    return extract.fa(self)


def tags_of(ref):
    t = []
    if ref.has_eps():
        t.append("has_epsilon")
    if len(ref.starts) > 1:
        t.append("multi_start")
    return t


def post_empty(ref, self, args, kwargs, result, exc):
    if exc is not None:
        core.report(PROP, "is_empty", "exception:" + type(exc).__name__, None, tags_of(ref))
    elif bool(result) != ref.is_empty():
        core.report(PROP, "is_empty", "wrong-true" if result else "wrong-false", None, tags_of(ref))


def post_bool(ref, self, args, kwargs, result, exc):
    if exc is not None:
        core.report(PROP, "is_empty", "exception:" + type(exc).__name__, {"via": "bool"}, tags_of(ref))
    elif bool(result) != (not ref.is_empty()):
        core.report(PROP, "is_empty", "wrong-false" if result else "wrong-true", {"via": "bool"}, tags_of(ref))


def post_det(ref, self, args, kwargs, result, exc):
    if exc is not None:
        core.report(PROP, "is_deterministic", "exception:" + type(exc).__name__, None, tags_of(ref))
    elif bool(result) != ref.is_deterministic():
        core.report(PROP, "is_deterministic", "wrong-true" if result else "wrong-false",
                    {"cls": extract.fa_kind(self)}, tags_of(ref))


def post_acyclic(ref, self, args, kwargs, result, exc):
    if exc is not None:
        core.report(PROP, "is_acyclic", "exception:" + type(exc).__name__, None, tags_of(ref))
    elif bool(result) != (not ref.has_reachable_cycle()):
        core.report(PROP, "is_acyclic", "wrong-true" if result else "wrong-false", None, tags_of(ref))


def install():
    from pyformlang.finite_automaton import (EpsilonNFA, NondeterministicFiniteAutomaton,
                                             DeterministicFiniteAutomaton)
    from pyformlang.finite_automaton.finite_automaton import FiniteAutomaton
    m = core.monitored
    m(EpsilonNFA, "is_empty", PROP, pre, post_empty)
    m(EpsilonNFA, "__bool__", PROP, pre, post_bool)
    for cls in (EpsilonNFA, NondeterministicFiniteAutomaton, DeterministicFiniteAutomaton):
        m(cls, "is_deterministic", PROP, pre, post_det)
    m(FiniteAutomaton, "is_acyclic", PROP, pre, post_acyclic)
    core.budget_funcs(core.existing(FiniteAutomaton, "get_accepted_words", "_get_states_leading_to_final"))


def judge_words(fa, ref, n):
    """the monitor is the caller: drain get_accepted_words(n) under a step budget and compare multisets"""
    from pyformlang.finite_automaton import Symbol
    tags = tags_of(ref)
    if n is None:
        if not ref.is_finite():
            core.LOG.discard("unbounded_on_infinite_language")
            return
        bound = max(ref.max_word_len(), 0)
        exp = ref.words(bound)
    else:
        exp = ref.words(n)
    budget = 50 * (len(ref.states) + 1) * (sum(len(w) + 1 for w in exp) + 1) * (len(ref.trans) + 1) + 10000
    core.LOG.count("C04.words")
    got = []
    try:
        with core.step_budget(budget):
            if n == 2:
                # a caller may stop reading the enumeration early, edit the word it was given, and enumerate again
                for w in fa.get_accepted_words(n):
                    w.append("<edited by the caller>")
                    break
                core.LOG.count("C04.abandoned_generators")
            for w in fa.get_accepted_words(n):
                got.append(w)
    except core.StepBudgetExceeded:
        core.report(PROP, "get_accepted_words", "step-budget-exceeded", {"n": n, "budget": budget}, tags)
        return
    except core.CaseTimeout:
        raise
    except Exception as e:
        core.report(PROP, "get_accepted_words", "exception:" + type(e).__name__, {"n": n}, tags)
        return
    if n in (2, 3) and len(exp) <= 60:
        # the yielded lists belong to the caller: edited while the enumeration goes on, the rest must not change

        try:
            seen2 = []
            with core.step_budget(budget):
                for w in fa.get_accepted_words(n):
                    seen2.append(tuple(getattr(s, "value", s) for s in w))
                    w.append("<edited by the caller>")
            core.LOG.count("C04.edited_while_enumerating")
            plain = collections.Counter(tuple(getattr(s_, "value", s_) for s_ in w) for w in got if isinstance(w, list))
            if plain == collections.Counter(exp) and collections.Counter(seen2) != collections.Counter(exp):
                # (a plain enumeration that is already wrong is judged below, under its own name)
                core.report(PROP, "get_accepted_words", "yielded-word-is-live",
                            {"n": n, "got": [list(map(repr, x)) for x in seen2[:6]]}, tags)
        except (core.StepBudgetExceeded, core.CaseTimeout):
            raise
        except Exception as e:      # noqa
            core.report(PROP, "get_accepted_words", "exception-after-caller-edit:" + type(e).__name__, {"n": n}, tags)
    bad = [w for w in got if not (isinstance(w, list) and all(isinstance(s, Symbol) for s in w))]
    if bad:
        core.report(PROP, "get_accepted_words", "not-a-list-of-symbols", {"n": n, "word": repr(bad[0])}, tags)
        return
    cnt = collections.Counter(tuple(s.value for s in w) for w in got)
    dup = [w for w, c in cnt.items() if c > 1]
    missing = exp - set(cnt)
    extra = set(cnt) - exp
    if dup:
        core.report(PROP, "get_accepted_words", "duplicate-word", {"n": n, "word": list(dup[0])}, tags)
    if missing:
        core.report(PROP, "get_accepted_words", "missing-word", {"n": n, "word": list(min(missing, key=len))}, tags)
    if extra:
        core.report(PROP, "get_accepted_words", "extra-word", {"n": n, "word": list(min(extra, key=len))}, tags)


def plan(tier, rng, sl, nslices, stats):
    cfg = TIERS[tier]
    for i in range(cfg["random"]):
        if i % 3 == 0:
            yield gfa.random_dag_case(rng, max_states=rng.choice([3, 4, 5, 6]))
        else:
            yield gfa.random_case(rng, max_states=rng.choice([3, 4, 5, 6]))
    for i in range(max(4, cfg["random"] // 500)):
        yield dense_case(rng)
    for i in range(max(6, cfg["random"] // 100)):
        yield gfa.large_case(rng)
    for i in range(2):
        yield long_chain_case(rng)
    if cfg.get("exhaustive"):
        for (n, k) in ((1, 1), (1, 2), (2, 1)):
            tot = gfa.exhaustive_count(n, k)
            for idx in range(sl, tot, nslices):
                yield gfa.exhaustive_nth(n, k, idx)
        stats.extra["exhaustive_complete"] = True
        stats.extra["exhaustive_scopes"] = "all eps-NFA with (1 state,1 sym),(1,2),(2,1)"
        tot = gfa.exhaustive_count(2, 2)
        for _ in range(8000):
            yield gfa.exhaustive_nth(2, 2, rng.randrange(tot))


def long_chain_case(rng):
    """a chain of several hundred states (a simple path far longer than Python's usual recursion depth, bounds far
    beyond 256) with two final states; sometimes closed into a cycle by an epsilon edge"""
    n = rng.choice([300, 620])
    trans = [[i, 0, i + 1] for i in range(n - 1)]
    cyc = rng.random() < 0.3
    if cyc:
        trans.append([n - 1, gfa.EPSID, 0])
    return {"kind": rng.choice(["enfa", "enfa", "dfa"]) if not cyc else "enfa", "n": n, "k": 1, "start": [0],
            "final": [5, n - 1], "trans": trans, "extra": [], "vc": "int", "token": False,
            "chain": [257, n - 10, n + 3] if not cyc else [258]}


def dense_case(rng):
    """two or three states, all final, several start states, (almost) every transition present: nearly every word
    is accepted along several runs; enumerated up to a bound where more than 256 words are held"""
    n = rng.randint(2, 3)
    trans = [[p, a, q] for p in range(n) for a in range(2) for q in range(n) if rng.random() < 0.8]
    if rng.random() < 0.5:
        trans.append([0, gfa.EPSID, n - 1])
        trans.append([n - 1, gfa.EPSID, 0])
    return {"kind": "enfa", "n": n, "k": 2, "start": list(range(rng.randint(1, 2))), "final": list(range(n)),
            "trans": trans, "extra": [], "vc": rng.choice(["int", "str"]), "token": False, "dense": rng.choice([8, 8, 9])}


def run_case(c, stats):
    fa = gfa.build(c)
    stats.cls("kind:" + c["kind"])
    with core.oracle_mode():
        ref = extract.fa(fa)
        for t in tags_of(ref):
            stats.cls("tag:" + t)
        fin = ref.is_finite()
        stats.cls("finite" if fin else "infinite")
        stats.cls("acyclic" if not ref.has_reachable_cycle() else "cyclic")
    call(fa.is_empty)
    call(bool, fa)
    call(fa.is_deterministic)
    if len(ref.states) <= 6 or c.get("chain"):
        call(fa.is_acyclic)
    with core.oracle_mode():
        pass
    for n in ((c["dense"],) if c.get("dense") else tuple(c["chain"]) if c.get("chain") else (0, 1, 2, 3, 4, None)):
        if n is not None and n > 3 and len(ref.alpha) > 2:
            continue
        LOGd = core.LOG.depth
        try:
            core.LOG.in_oracle += 1
            try:
                judge_words_outer(fa, ref, n)
            finally:
                core.LOG.in_oracle -= 1
        finally:
            core.LOG.depth = LOGd
    if len(c["trans"]) % 2 == 0 and any(t[1] == gfa.EPSID for t in c["trans"]):
        # a bystander with the same state names loses its epsilon moves: nothing changes for this automaton
        from pyformlang.finite_automaton import Epsilon
        other = gfa.build(c)
        for (p_, a_, q_) in [t for t in other if isinstance(t[1], Epsilon)]:
            call(other.remove_transition, p_, a_, q_)
        stats.cls("bystander_edited")
        call(fa.is_deterministic)
        call(fa.is_empty)
        if len(ref.states) <= 6:
            call(fa.is_acyclic)
        with core.oracle_mode():
            judge_words(fa, ref, 2)
    if c.get("edits"):
        gfa.apply_edits(fa, c)
        stats.cls("edited")
        with core.oracle_mode():
            ref2 = extract.fa(fa)
        call(fa.is_empty)
        call(fa.is_deterministic)
        if len(ref2.states) <= 6:
            call(fa.is_acyclic)
        with core.oracle_mode():
            for n in (3, 1, None) if len(ref2.alpha) <= 2 else (2, None):
                judge_words(fa, ref2, n)
    return bool(ref.trans) and not ref.is_empty()


def judge_words_outer(fa, ref, n):
    judge_words(fa, ref, n)
