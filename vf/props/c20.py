"""C20 - export / import round trips and recursive automata."""
import json

from vf import core, extract
from vf.gen import cfg as gcfg
from vf.gen import fa as gfa
from vf.gen import fst as gfst
from vf.gen import pda as gpda
from vf.ref import nfa as rn
from vf.ref import regexsem as rs
from vf.props.cfgcommon import ref_of
from vf.worker import call

PROP = "C20"
N = 4
TECHNIQUE = "runtime contracts with shadow state: exports remember the source structure, imports are compared with it"
RULE = ("eps-NFA / PDA / FST objects whose values are JSON-representable (ints, strings incl. blanks, 'starting_0', "
        "'INITIAL_STACK_HIDDEN'; isolated declared states, final states without transitions, several start states, "
        "parallel edges, multi-symbol pushes and outputs): the graph produced by to_networkx() is remembered with the "
        "source's extracted structure and from_networkx() of that graph must rebuild the same states, start/final "
        "marking and transitions (and, for PDAs, start stack symbol); CFGs over whitespace-free tokens (lower-case "
        "variables, capitalised terminals forcing VAR:/TER: markers, epsilon productions): from_text(to_text()) must "
        "give the same production set; RecursiveAutomaton.from_regex / from_ebnf over texts rendered from regex ASTs "
        "(repeated heads, empty bodies, unions, stars): one box per head, start box = start non-terminal, each box "
        "exactly equivalent to the union of the reference denotations of its right-hand sides. "
        "Non-trivial: object has >=2 transitions / productions; distinct = case hash."
        " Later additions: label-like symbols ('a->b', '/'), a state called 'starting_' + the name of a start state, one lower-case token naming a variable and a terminal, EBNF alternatives that differ only in blanks.")
ASSUMPTIONS = ["values are restricted as the property's quantifier says (no epsilon spellings, no ' -> ' / ' / ')"]
TIERS = {
    "quick": {"workers": 8, "random": 3000},
    "thorough": {"workers": 16, "random": 50000, "pytest": True, "hard_timeout": 3000},
}
MIN = {"quick": {"C20.FiniteAutomaton.from_networkx": 500, "C20.PDA.from_networkx": 500, "C20.FST.from_networkx": 500,
                 "C20.CFG.from_text": 500, "C20.RecursiveAutomaton.from_ebnf": 300,
                 "C20.RecursiveAutomaton.from_regex": 300},
       "thorough": {"C20.FiniteAutomaton.from_networkx": 10000, "C20.CFG.from_text": 10000}}

GRAPHS = {}      # id(graph) -> (graph, kind, ref)
TEXTS = {}       # text -> ref grammar
REGEXES = {}     # id(regex) -> (regex, ref nfa)


def anchors():
    from pyformlang.finite_automaton.finite_automaton import FiniteAutomaton
    from pyformlang.pda import PDA
    from pyformlang.fst import FST
    from pyformlang.cfg import CFG
    from pyformlang.rsa import RecursiveAutomaton
    return [FiniteAutomaton.to_networkx, PDA.to_networkx, FST.to_networkx, CFG.to_text, CFG._read_line]


def remember_graph(g, kind, ref):
    if len(GRAPHS) > 200:
        GRAPHS.clear()
    GRAPHS[id(g)] = (g, kind, ref)


def make_post_to_nx(kind, extractor):
    def post(st, self, args, kwargs, result, exc):
        if exc is not None:
            core.report(PROP, kind + "_roundtrip", "to_networkx-exception:" + type(exc).__name__, None)
            return
        remember_graph(result, kind, extractor(self))
    return post


def fa_tags(ref):
    t = []
    touched = set(ref.starts) | set(ref.finals)
    for p, a, q in ref.trans:
        touched |= {p, q}
    if ref.states - touched:
        t.append("isolated_state")
    if any(isinstance(s, str) and s.startswith("starting_") for s in ref.states):
        t.append("state_named_starting_")
    return t


def post_from_nx_fa(st, klass, args, kwargs, result, exc):
    hit = GRAPHS.get(id(args[0])) if args else None
    if hit is None or hit[0] is not args[0] or hit[1] != "fa":
        return
    ref = hit[2]
    tags = fa_tags(ref)
    if exc is not None:
        core.report(PROP, "fa_roundtrip", "exception:" + type(exc).__name__, None, tags)
        return
    res = extract.fa(result)
    for what, a, b in (("states", ref.states, res.states), ("start-states", ref.starts, res.starts),
                       ("final-states", ref.finals, res.finals), ("transitions", ref.trans, res.trans)):
        if a != b:
            core.report(PROP, "fa_roundtrip", what + "-differ",
                        {"lost": sorted(map(repr, a - b))[:3], "new": sorted(map(repr, b - a))[:3]}, tags)
            return


def pda_struct(r):
    return (frozenset(r.states), r.q0, r.z0, frozenset(r.finals), frozenset(r.trans))


def pda_tags(r):
    t = []
    touched = {r.q0}
    for tr in r.trans:
        touched |= {tr[0], tr[3]}
    if set(r.finals) - touched:
        t.append("final_state_without_transition")
    if any(isinstance(s, str) and s.startswith("starting_") for s in r.states):
        t.append("state_named_starting_")
    if any(s == "INITIAL_STACK_HIDDEN" for s in r.states):
        t.append("state_named_INITIAL_STACK_HIDDEN")
    return t


def post_from_nx_pda(st, klass, args, kwargs, result, exc):
    hit = GRAPHS.get(id(args[0])) if args else None
    if hit is None or hit[0] is not args[0] or hit[1] != "pda":
        return
    ref = hit[2]
    tags = pda_tags(ref)
    if exc is not None:
        core.report(PROP, "pda_roundtrip", "exception:" + type(exc).__name__, None, tags)
        return
    res = extract.pda(result)
    a, b = pda_struct(ref), pda_struct(res)
    names = ["states", "start-state", "start-stack-symbol", "final-states", "transitions"]
    for n, x, y in zip(names, a, b):
        if x != y:
            core.report(PROP, "pda_roundtrip", n + "-differ", {"before": repr(x)[:120], "after": repr(y)[:120]}, tags)
            return


def fst_struct(r):
    return (frozenset(map(repr, r.states)), frozenset(r.starts), frozenset(r.finals), frozenset(r.trans))


def post_from_nx_fst(st, klass, args, kwargs, result, exc):
    hit = GRAPHS.get(id(args[0])) if args else None
    if hit is None or hit[0] is not args[0] or hit[1] != "fst":
        return
    ref = hit[2]
    tags = []
    if any(isinstance(s, str) and s.startswith("starting_") for s in ref.states):
        tags.append("state_named_starting_")
    touched = set(ref.starts) | set(ref.finals)
    for tr in ref.trans:
        touched |= {tr[0], tr[2]}
    if exc is not None:
        core.report(PROP, "fst_roundtrip", "exception:" + type(exc).__name__, None, tags)
        return
    res = extract.fst(result)
    a, b = fst_struct(ref), fst_struct(res)
    for n, x, y in zip(["states", "start-states", "final-states", "transitions"], a, b):
        if x != y:
            core.report(PROP, "fst_roundtrip", n + "-differ", {"before": repr(sorted(x, key=repr))[:150],
                                                                "after": repr(sorted(y, key=repr))[:150]}, tags)
            return


def post_to_text(st, self, args, kwargs, result, exc):
    if exc is not None:
        core.report(PROP, "cfg_text_roundtrip", "to_text-exception:" + type(exc).__name__, None)
        return
    if len(TEXTS) > 200:
        TEXTS.clear()
    TEXTS[result] = ref_of(self)


def cfg_tags(ref):
    t = []
    if any(isinstance(x, str) and x[:1].isupper() for x in ref.terminals):
        t.append("capitalised_terminal")
    if any(isinstance(x, str) and not x[:1].isupper() for x in ref.variables):
        t.append("lowercase_variable")
    return t


def post_from_text(st, klass, args, kwargs, result, exc):
    text = args[0] if args else kwargs.get("text")
    ref = TEXTS.get(text)
    if ref is None:
        return
    tags = cfg_tags(ref)
    if exc is not None:
        core.report(PROP, "cfg_text_roundtrip", "exception:" + type(exc).__name__, {"text": text[:200]}, tags)
        return
    res = ref_of(result)
    if set(res.prods) != set(ref.prods):
        lost = set(ref.prods) - set(res.prods)
        new = set(res.prods) - set(ref.prods)
        core.report(PROP, "cfg_text_roundtrip", "productions-differ",
                    {"lost": sorted(map(repr, lost))[:2], "new": sorted(map(repr, new))[:2], "text": text[:200]}, tags)
        return
    if res.start == ref.start and set(res.words(N)) != set(ref.words(N)):
        core.report(PROP, "cfg_text_roundtrip", "language-differs", None, tags)


def post_from_regex(st, klass, args, kwargs, result, exc):
    hit = REGEXES.get(id(args[0])) if args else None
    if hit is None or hit[0] is not args[0]:
        return
    ref = hit[1]
    if exc is not None:
        core.report(PROP, "rsa_from_regex", "exception:" + type(exc).__name__, None)
        return
    start = args[1] if len(args) > 1 else kwargs.get("start_nonterminal")
    sv = getattr(start, "value", start)
    if result.get_number_boxes() != 1:
        core.report(PROP, "rsa_from_regex", "box-count", {"boxes": result.get_number_boxes()})
        return
    if result.start_nonterminal.value != sv or result.start_box.nonterminal.value != sv:
        core.report(PROP, "rsa_from_regex", "start-box-wrong", None)
        return
    w = rn.equiv(ref, extract.fa(result.start_box.dfa))
    if w is not None:
        core.report(PROP, "rsa_from_regex", "box-language-differs", {"word": w})


def parse_ebnf(text):
    """reference reading of an EBNF text: head -> union of the denotations of its bodies"""
    heads = {}
    for line in text.splitlines():
        line = line.strip()
        if "->" not in line:
            continue
        head, body = line.split("->")
        head, body = head.strip(), body.strip()
        ast = ("eps",) if body == "" else rs.parse(body)
        heads[head] = ast if head not in heads else ("alt", heads[head], ast)
    return heads


def post_from_ebnf(st, klass, args, kwargs, result, exc):
    text = args[0] if args else kwargs.get("text")
    start = args[1] if len(args) > 1 else kwargs.get("start_nonterminal", "S")
    sv = getattr(start, "value", start)
    try:
        heads = parse_ebnf(text)
    except rs.ParseError:
        core.LOG.discard("ebnf_body_not_well_formed")
        return
    tags = []
    if sv not in heads:
        tags.append("start_not_a_head")
    if exc is not None:
        core.report(PROP, "rsa_from_ebnf", "exception:" + type(exc).__name__, {"text": text[:200]}, tags)
        return
    boxes = result.boxes
    got = {k.value for k in boxes}
    if got != set(heads):
        core.report(PROP, "rsa_from_ebnf", "boxes-differ-from-heads", {"boxes": sorted(map(repr, got)), "heads": sorted(heads)}, tags)
        return
    if result.start_nonterminal.value != sv:
        core.report(PROP, "rsa_from_ebnf", "start-box-wrong", None, tags)
        return
    for k, box in boxes.items():
        if box.nonterminal.value != k.value:
            core.report(PROP, "rsa_from_ebnf", "box-label-wrong", None, tags)
            return
        w = rn.equiv(rs.to_nfa(heads[k.value]), extract.fa(box.dfa))
        if w is not None:
            core.report(PROP, "rsa_from_ebnf", "box-language-differs", {"head": k.value, "word": w, "text": text[:200]}, tags)
            return


def install():
    from pyformlang.finite_automaton.finite_automaton import FiniteAutomaton
    from pyformlang.pda import PDA
    from pyformlang.fst import FST
    from pyformlang.cfg import CFG
    from pyformlang.rsa import RecursiveAutomaton
    m = core.monitored
    m(FiniteAutomaton, "to_networkx", PROP, None, make_post_to_nx("fa", extract.fa))
    m(PDA, "to_networkx", PROP, None, make_post_to_nx("pda", extract.pda))
    m(FST, "to_networkx", PROP, None, make_post_to_nx("fst", extract.fst))
    core.monitored_cm(FiniteAutomaton, "from_networkx", PROP, None, post_from_nx_fa)
    core.monitored_cm(PDA, "from_networkx", PROP, None, post_from_nx_pda)
    core.monitored_cm(FST, "from_networkx", PROP, None, post_from_nx_fst)
    m(CFG, "to_text", PROP, None, post_to_text)
    core.monitored_cm(CFG, "from_text", PROP, None, post_from_text)
    core.monitored_cm(RecursiveAutomaton, "from_regex", PROP, None, post_from_regex)
    core.monitored_cm(RecursiveAutomaton, "from_ebnf", PROP, None, post_from_ebnf)


# ---------------------------------------------------------------- workload

GRAPH_STATES = ["q0", "x y", "starting_0", "INITIAL_STACK_HIDDEN", 7, "q 1"]


def digit_name_map(order):
    """every state called by a digit-only TEXT ('0', '7', '07', '11'): texts, not numbers"""
    names = ["0", "1", "07", "7", "10", "11", "2", "002", "3", "12", "13", "4", "5", "6", "8", "9"]
    return {s: (names[i] if i < len(names) else "9%d" % i) for i, s in enumerate(order)}


def graph_name_map(order):
    """names hostile to the graph export: the first state (a start state) is called X and the next one
    'starting_' + X, the name of the invisible node that marks X as a start state"""
    first = ["q0", 7, "x y", "starting_0"][len(order) % 4]
    names = [first, "starting_" + str(first), "INITIAL_STACK_HIDDEN", "q 1", 3, "starting_", "q0_starting"]
    return {s: (names[i] if i < len(names) else "g%d" % i) for i, s in enumerate(order)}


def plan(tier, rng, sl, nslices, stats):
    cfg = TIERS[tier]
    for i in range(cfg["random"]):
        k = i % 6
        if k == 0 and i % 60 == 0:
            c = gfa.large_case(rng, kinds=("enfa",))
            c["graph_names"] = False
            c["isolated"] = False
            yield {"kind": "fa", "fa": c}
        elif k == 0:
            c = gfa.random_case(rng, max_states=4, max_syms=3, kinds=("enfa",), vcs=["int", "str", "binary"])
            c["graph_names"] = rng.random() < 0.3
            c["isolated"] = rng.random() < 0.25
            yield {"kind": "fa", "fa": c}
        elif k == 1:
            c = gpda.random_case(rng, vcs=["str", "int"])
            c["graph_names"] = rng.random() < 0.3
            c["graph_syms"] = c["graph_names"] and rng.random() < 0.6
            c["lonely_final"] = rng.random() < 0.25
            yield {"kind": "pda", "p": c}
        elif k == 2:
            c = gfst.random_case(rng, vcs=["str", "int"])
            if rng.random() < 0.35:
                # symbols that look like pieces of a label ("->" and "/" without the blanks of the separators)
                c["vc"] = rng.choice(["graph", "str"])
                c["ins"] = rng.choice([["a->b", "/"], ["->", "a"], ["a/b", "b->"]])
                c["outs"] = rng.choice([["x/y", "->", "a->b", 1, "1"], ["x", "y->", "/", 1, "1"]])
            yield {"kind": "fst", "t": c}
        elif k == 3:
            c = gcfg.random_case(rng, max_vars=3, max_terms=3, max_prods=6, max_body=3,
                                 vcs=["str", "lower", "lower", "odd", "clash", "lowerclash", "epsvar"], p_eps=rng.choice([0, 0.2]))
            yield {"kind": "cfg", "g": c}
        elif k == 4:
            ast = rs.gen_ast(rng, rng.choice([1, 2, 3]), escaped=0)
            yield {"kind": "rsa_regex", "text": rs.render(ast, rng), "start": rng.choice(["S", "A", "Expr"])}
        else:
            heads = ["S", "A", "B"][:rng.randint(1, 3)]
            lines = []
            for _ in range(rng.randint(1, 4)):
                h = rng.choice(heads)
                if rng.random() < 0.12:
                    body = ""
                else:
                    ast = relabel(rs.gen_ast(rng, rng.choice([0, 1, 2]), escaped=0), heads, rng)
                    body = rs.render(ast, rng)
                lines.append(h + " -> " + body)
            if rng.random() < 0.15:
                # punctuation symbols, also at the very end of a right-hand side
                lines.append(rng.choice(heads) + " -> " + rng.choice(["a ;", "a b ;", "; a", "a , b ;", "a :"]))
            if rng.random() < 0.2:
                # two alternatives of one head that differ only in where the blanks are: x y  vs  xy
                x, y = rng.choice(["a", "b", "S", "A", "ab"]), rng.choice(["a", "b", "B", "c"])
                h = rng.choice(heads)
                extra = [h + " -> " + x + " " + y + rng.choice(["", "*", " c"]), h + " -> " + x + y + rng.choice(["", "*", " c"])]
                rng.shuffle(extra)
                for l in extra:
                    lines.insert(rng.randrange(len(lines) + 1), l)
            if not any(l.startswith("S ") for l in lines):
                lines.insert(0, "S -> a")
            yield {"kind": "rsa_ebnf", "text": "\n".join(lines), "start": "S"}


def relabel(ast, heads, rng):
    if ast[0] == "sym":
        return ("sym", rng.choice(heads)) if rng.random() < 0.3 else ast
    return (ast[0],) + tuple(relabel(x, heads, rng) if isinstance(x, tuple) else x for x in ast[1:])


def run_case(c, stats):
    kind = c["kind"]
    stats.cls(kind)
    if kind == "fa":
        from pyformlang.finite_automaton import EpsilonNFA, State
        cc = c["fa"]
        fa = gfa.build(cc)
        if cc.get("graph_names"):
            # rebuild with graph-hostile names
            fa2 = EpsilonNFA()
            order = sorted(fa.start_states, key=repr) + sorted(set(fa.states) - set(fa.start_states), key=repr)
            m = graph_name_map(order) if len(cc["trans"]) % 2 else digit_name_map(order)
            for p, a, q in fa:
                fa2.add_transition(m[p], a, m[q])
            for s in fa.start_states:
                fa2.add_start_state(m[s])
            for s in fa.final_states:
                fa2.add_final_state(m[s])
            fa = fa2
        if cc.get("isolated"):
            fa = EpsilonNFA(states={State("iso")} | set(fa.states), input_symbols=set(fa.symbols),
                            start_state=set(fa.start_states), final_states=set(fa.final_states))
            for p, a, q in gfa.build(cc) if not cc.get("graph_names") else []:
                fa.add_transition(p, a, q)
        ok, g = call(fa.to_networkx)
        if ok:
            call(type(fa).from_networkx, g)
        return len(cc["trans"]) >= 2
    if kind == "pda":
        from pyformlang.pda import PDA
        cc = c["p"]
        p = gpda.build(cc)
        if cc.get("lonely_final"):
            p.add_final_state("lonely")
        if cc.get("graph_names"):
            order = [p.start_state.value] + sorted({s.value for s in p.states} - {p.start_state.value}, key=repr)
            names = graph_name_map(order)
            p2 = PDA(start_state=names[order[0]], start_stack_symbol=p._start_stack_symbol.value)
            sy = (lambda v: {"a": "a->b", "b": "/", "Z": "Z/0", "X": "->", "Y": "X->Y"}.get(v, v)) \
                if cc.get("graph_syms") else (lambda v: v)
            if cc.get("graph_syms"):
                p2 = PDA(start_state=names[order[0]], start_stack_symbol=sy(p._start_stack_symbol.value))
            for (q, a, X), outs in p.to_dict().items():
                for (r, push) in outs:
                    p2.add_transition(names[q.value], sy(a.value), sy(X.value), names[r.value],
                                      [sy(y.value) for y in push])
            for f in p.final_states:
                p2.add_final_state(names.get(f.value, f.value))
            p = p2
        ok, g = call(p.to_networkx)
        if ok:
            call(PDA.from_networkx, g)
        return len(cc["trans"]) >= 2
    if kind == "fst":
        from pyformlang.fst import FST
        cc = c["t"]
        t = gfst.build(cc)
        ok, g = call(t.to_networkx)
        if ok:
            call(FST.from_networkx, g)
        return len(cc["trans"]) >= 2
    if kind == "cfg":
        from pyformlang.cfg import CFG
        g = gcfg.build(c["g"])
        if g.start_symbol is None:
            return False
        ok, text = call(g.to_text)
        if ok:
            call(CFG.from_text, text, g.start_symbol)
        return len(c["g"]["prods"]) >= 2
    if kind == "rsa_regex":
        from pyformlang.regular_expression import Regex
        from pyformlang.rsa import RecursiveAutomaton
        ok, r = call(Regex, c["text"])
        if not ok:
            return False
        with core.oracle_mode():
            REGEXES.clear()
            REGEXES[id(r)] = (r, rs.to_nfa(rs.parse(c["text"])))
        call(RecursiveAutomaton.from_regex, r, c["start"])
        return True
    from pyformlang.rsa import RecursiveAutomaton
    ok, rsa1 = call(RecursiveAutomaton.from_ebnf, c["text"], c["start"])
    if ok and len(c["text"]) % 2 == 0:
        # the boxes handed out belong to the caller: their automata are edited and the text is read again
        for box in list(rsa1.boxes.values()):
            for s_ in list(box.dfa.states):
                call(box.dfa.add_final_state, s_)
    call(RecursiveAutomaton.from_ebnf, c["text"])
    call(RecursiveAutomaton.from_ebnf, c["text"], c["start"])
    return True
