"""C11 - intersection of a CFG / PDA with a regular language."""
from vf import core, extract
from vf.gen import cfg as gcfg
from vf.gen import fa as gfa
from vf.gen import pda as gpda
from vf.ref import nfa as rn
from vf.ref import regexsem as rs
from vf.props.cfgcommon import ref_of
from vf.worker import call

PROP = "C11"
N = 4
RULE = ("(grammar | PDA) x (Regex | DFA | NFA | eps-NFA) pairs: partial DFAs, NFA/eps-NFA objects that happen to be "
        "deterministic, alphabets that only partly overlap, empty language / missing start on either side, epsilon in "
        "one or both languages, automaton objects reused across successive calls; cfg.intersection(r) is compared on "
        "all words <=%d with {w in L(g): r accepts w}; pda.intersection(r) with {w: p accepts by final state and r "
        "accepts} through the exact PDA oracle; other operand types must raise NotImplementedError. "
        "Non-trivial: both operands non-empty on the bound; distinct = hash of the pair." % N)
ASSUMPTIONS = ["comparison bounded to words of length <= %d" % N]
TIERS = {
    "quick": {"workers": 4, "random": 2500},
    "thorough": {"workers": 16, "random": 20000, "pytest": True, "hard_timeout": 3300},
}
MIN = {"quick": {"C11.CFG.intersection": 1000, "C11.PDA.intersection": 600},
       "thorough": {"C11.CFG.intersection": 20000, "C11.PDA.intersection": 10000}}
REGEX_REF = {}


def anchors():
    from pyformlang.cfg import CFG
    from pyformlang.pda import PDA
    return [CFG.intersection, CFG._intersection_when_terminal, CFG._intersection_when_two_non_terminals,
            CFG._intersection_starting_rules, PDA.intersection]


def regular_ref(other):
    """-> (ref NFA, kind, tags) or None when `other` is not a regular-language operand"""
    from pyformlang.regular_expression import Regex
    from pyformlang.finite_automaton import FiniteAutomaton
    if isinstance(other, Regex):
        r = REGEX_REF.get(id(other))
        if r is None:
            r = extract.fa(other.to_epsilon_nfa())
        return r, "regex", []
    if isinstance(other, FiniteAutomaton):
        r = extract.fa(other)
        kind = extract.fa_kind(other)
        tags = []
        if kind != "dfa" and r.is_deterministic():
            tags.append("arg_deterministic_non_dfa_object")
        if not r.starts:
            tags.append("arg_no_start")
        if len(r.starts) > 1:
            tags.append("arg_multi_start")
        from vf.props.c01 import str_collision
        if kind != "dfa" and str_collision(r):
            tags.append("state_str_collision")
        return r, kind, tags
    return None


def pre_cfg(self, args, kwargs):
    other = args[0] if args else None
    return ref_of(self), regular_ref(other)


def post_cfg(st, self, args, kwargs, result, exc):
    ref, reg = st
    if reg is None:
        if not isinstance(exc, NotImplementedError):
            core.report(PROP, "cfg.intersection", "other-type-not-NotImplementedError",
                        {"got": type(exc).__name__ if exc else "returned"})
        return
    r, kind, tags = reg
    tags = tags + ["arg:" + kind]
    if ref.start is None:
        tags.append("no_start")
    if exc is not None:
        core.report(PROP, "cfg.intersection", "exception:" + type(exc).__name__, {"msg": str(exc)[:80]}, tags)
        return
    exp = {w for w in ref.words(N) if r.accepts(w)}
    got = set(ref_of(result).words(N))
    if exp != got:
        miss, extra = exp - got, got - exp
        core.report(PROP, "cfg.intersection", "missing-word" if miss else "extra-word",
                    {"word": list(min(miss or extra, key=len))}, tags)
    if extract.cfg(self).key() != ref.key():
        core.report(PROP, "cfg.intersection", "operand-mutated", None, tags)


def pre_pda(self, args, kwargs):
    other = args[0] if args else None
    return extract.pda(self), regular_ref(other)


def post_pda(st, self, args, kwargs, result, exc):
    ref, reg = st
    if reg is None:
        if not isinstance(exc, NotImplementedError):
            core.report(PROP, "pda.intersection", "other-type-not-NotImplementedError",
                        {"got": type(exc).__name__ if exc else "returned"})
        return
    r, kind, tags = reg
    tags = tags + ["arg:" + kind]
    if exc is not None:
        core.report(PROP, "pda.intersection", "exception:" + type(exc).__name__, {"msg": str(exc)[:80]}, tags)
        return
    res = extract.pda(result)
    alpha = sorted(ref.alpha | r.alpha, key=repr)[:3]
    for w in rn.all_words(alpha, N if len(alpha) <= 2 else 3):
        exp = ref.accepts_final(w) and r.accepts(w)
        got = res.accepts_final(w)
        if exp != got:
            core.report(PROP, "pda.intersection", "wrong-accept" if got else "wrong-reject", {"word": list(w)}, tags)
            return
    if extract.pda(self).key() != ref.key():
        core.report(PROP, "pda.intersection", "operand-mutated", None, tags)


def install():
    from pyformlang.cfg import CFG
    from pyformlang.pda import PDA
    m = core.monitored
    m(CFG, "intersection", PROP, pre_cfg, post_cfg)
    m(CFG, "__and__", PROP, pre_cfg, post_cfg)
    m(PDA, "intersection", PROP, pre_pda, post_pda)
    m(PDA, "__and__", PROP, pre_pda, post_pda)


def trie_case(rng, kind="dfa"):
    """the trie of a few short words (ten or more states, accepting leaves without outgoing transitions), padded with
    an unreachable component; as a DFA, or as an NFA with a second start state inside the padding"""
    words = [[0, 1], [0, 0, 1, 1], [1, 0], [0, 1, 0, 1], [1, 1], [0, 0, 1]]
    rng.shuffle(words)
    words = words[:rng.randint(4, 6)]
    trans, finals, nxt = [], [], 1
    index = {(): 0}
    for w in words:
        for i in range(1, len(w) + 1):
            pre = tuple(w[:i])
            if pre not in index:
                index[pre] = nxt
                trans.append([index[tuple(w[:i - 1])], w[i - 1], nxt])
                nxt += 1
        finals.append(index[tuple(w)])
    pad0 = nxt
    for j in range(3):
        trans.append([pad0 + j, j % 2, pad0 + (j + 1) % 3])        # unreachable padding
    starts = [0]
    if kind != "dfa":
        starts.append(pad0)                                            # a second start state (its component accepts b a)
        trans.append([pad0, 1, pad0 + 1])
        finals.append(pad0 + 2)
    return {"kind": kind, "n": pad0 + 3, "k": 2, "start": starts, "final": sorted(set(finals)), "trans": trans,
            "extra": [], "vc": rng.choice(["int", "str"]), "token": True}


def plan(tier, rng, sl, nslices, stats):
    cfg = TIERS[tier]
    for i in range(24):
        # scale cases: automata with ten or more states against the grammar / PDA of a^n b^n and random ones
        anbn_g = {"nv": 1, "nt": 2, "start": 0, "prods": [[0, [["T", 0], ["V", 0], ["T", 1]]], [0, [["T", 0], ["T", 1]]]],
                  "vc": "str"}
        anbn_p = {"n": 2, "m": 2, "k": 2, "trans": [[0, 0, 0, 0, [1, 0]], [0, 0, 1, 0, [1, 1]], [0, 1, 1, 1, []],
                                                    [1, 1, 1, 1, []], [1, -1, 0, 1, []]],
                  "start": 0, "zstart": 0, "finals": [1], "vc": "str"}
        kind = ["dfa", "nfa", "enfa"][i % 3]
        left = ({"kind": "cfg", "g": anbn_g if i % 4 < 2 else gcfg.random_case(rng, max_vars=3, max_terms=2, max_prods=5,
                                                                               max_body=3, vcs=["str"])}
                if i % 2 == 0 else
                {"kind": "pda", "p": anbn_p if i % 4 == 1 else gpda.random_case(rng, max_push=2, vcs=["str"])})
        yield {"left": left, "right": {"kind": "fa", "fa": trie_case(rng, kind)}, "twice": False}
    for i in range(cfg["random"]):
        left = ({"kind": "cfg", "g": gcfg.random_case(rng, max_vars=3, max_terms=2, max_prods=5, max_body=3,
                                                       vcs=["str", "int", "lower"])}
                if i % 5 < 3 else {"kind": "pda", "p": gpda.random_case(rng, max_push=2, vcs=["str", "int", "tuple", "mixed"])})
        r = rng.random()
        if r < 0.3:
            ast = rs.gen_ast(rng, rng.choice([1, 2, 3]), escaped=0)
            ast = relabel(ast)
            right = {"kind": "regex", "text": rs.render(ast, rng)}
        elif r < 0.93:
            fa = gfa.random_case(rng, max_states=rng.choice([3, 3, 4]), max_syms=rng.choice([1, 2, 3]),
                                 vcs=["int", "str", "tuple", "varnames", "varnames", "mixed"])
            if rng.random() < 0.35 and fa["kind"] != "dfa":
                # an NFA / eps-NFA object that happens to be deterministic
                seen = set()
                tr = []
                for t in fa["trans"]:
                    if t[1] >= 0 and (t[0], t[1]) not in seen:
                        seen.add((t[0], t[1]))
                        tr.append(t)
                fa["trans"] = tr
                fa["start"] = fa["start"][:1]
            fa["token"] = True      # symbols 'a','b','ab': shared with the grammar's terminals a, b
            right = {"kind": "fa", "fa": fa}
        else:
            right = {"kind": "other", "which": rng.choice(["int", "str", "cfg", "none"])}
        yield {"left": left, "right": right, "twice": rng.random() < 0.4}


def relabel(ast):
    m = {"cd": "a", "x1": "b"}
    if ast[0] == "sym":
        return ("sym", m.get(ast[1], ast[1]))
    return (ast[0],) + tuple(relabel(x) if isinstance(x, tuple) else x for x in ast[1:])


def run_case(c, stats):
    from pyformlang.regular_expression import Regex
    from pyformlang.cfg import CFG
    L = c["left"]
    obj = gcfg.build(L["g"]) if L["kind"] == "cfg" else gpda.build(L["p"])
    R = c["right"]
    stats.cls("left:" + L["kind"])
    stats.cls("right:" + R["kind"] + (":" + R["fa"]["kind"] if R["kind"] == "fa" else ""))
    nt = False
    if R["kind"] == "regex":
        arg = Regex(R["text"])
        with core.oracle_mode():
            ref = rs.to_nfa(rs.parse(R["text"]))
            REGEX_REF.clear()
            REGEX_REF[id(arg)] = ref
            nt = not ref.is_empty()
    elif R["kind"] == "fa":
        arg = gfa.build(R["fa"])
        with core.oracle_mode():
            nt = not extract.fa(arg).is_empty()
    else:
        arg = {"int": 3, "str": "a*", "cfg": CFG(), "none": None}[R["which"]]
    ok, res = call(obj.intersection, arg)
    call(lambda: obj & arg)
    if c.get("twice") and R["kind"] == "fa":
        # the same automaton object (and its State objects) used again with another receiver
        other = gcfg.build(gcfg.random_case(__import__("random").Random(len(str(c))), max_vars=2, max_terms=2,
                                            max_prods=4, max_body=3, vcs=["str"]))
        call(other.intersection, arg)
        call(obj.intersection, arg)
        # a second automaton that shares State objects with the first one (copy() keeps them) but has more
        # states: the per-object converter indices of the first conversion must not leak into the second
        ok2, arg2 = call(arg.copy)
        if ok2:
            sts = sorted(arg2.states, key=lambda x: repr(x.value))
            call(arg2.add_transition, "zz_new0", "a", sts[0] if sts else "zz_new1")
            call(arg2.add_transition, sts[-1] if sts else "zz_new0", "b", "zz_new1")
            call(arg2.add_final_state, "zz_new1")
            call(arg2.add_start_state, "zz_new0") if R["fa"]["kind"] != "dfa" else None
            call(obj.intersection, arg2)
            call(other.intersection, arg2)
    if L["kind"] == "pda" and R["kind"] != "other" and c.get("twice"):
        # the PDA is edited through add_transition between two intersections (same object)
        sts = sorted(obj.states, key=lambda x: repr(x.value))
        zs = sorted(obj.stack_symbols, key=lambda x: repr(x.value))
        if sts and zs:
            call(obj.add_transition, sts[0], "epsilon", zs[-1], sts[-1], [])
            call(obj.add_transition, sts[-1], "epsilon", "ZZnew", sts[0], [zs[0]])
            call(obj.add_final_state, sts[-1])
            call(obj.intersection, arg)
            call(obj.add_transition, sts[0], "a", zs[0], sts[0], [zs[0], zs[0]])
            call(obj.intersection, arg)
    if ok and L["kind"] == "cfg" and res is not None and R["kind"] != "other":
        call(res.intersection, arg)      # idempotent on the language: checked by the same contract
    if ok and L["kind"] == "pda" and res is not None and R["kind"] == "fa" and res.start_state is not None:
        # (a product without start state - the automaton had none - is outside "all PDAs": nothing to intersect)
        # the product is a PDA like any other (its states are pairs): intersected again, also with a second
        # nondeterministic automaton whose subset states carry ';' in their names
        call(res.intersection, arg)
        fa2 = gfa.build(gfa.random_case(__import__("random").Random(len(str(c)) + 1), max_states=3, max_syms=2,
                                        kinds=("nfa", "enfa"), vcs=["int"], token=True))
        call(res.intersection, fa2)
    if R["kind"] == "fa" and R["fa"]["kind"] != "dfa" and len(str(c)) % 3 == 0:
        # the automaton operand (used above) gets one more start state and is used again
        sts = sorted(arg.states, key=lambda x: repr(x.value))
        extra = [x for x in sts if x not in arg.start_states]
        if extra:
            call(arg.add_start_state, extra[-1])
            stats.cls("operand_start_added")
            call(obj.intersection, arg)
            call(lambda: obj & arg)
    if R["kind"] == "fa" and R["fa"].get("edits"):
        # the automaton operand is edited through its public mutators (transitions removed, too) and used again
        gfa.apply_edits(arg, R["fa"])
        stats.cls("operand_edited")
        call(obj.intersection, arg)
        call(lambda: obj & arg)
    return nt
