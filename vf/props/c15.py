"""C15 - every parse tree or derivation handed out is a real derivation of the given word."""
import weakref

from vf import core, values
from vf.gen import cfg as gcfg
from vf.props.cfgcommon import ref_of, word_values
from vf.props.trees import validate_tree, validate_derivation, node_sym
from vf.worker import call

PROP = "C15"
N = 4
RULE = ("random grammars (ambiguous, epsilon productions, left recursion) x all words <=%d over the terminals (+ a "
        "foreign symbol): every tree returned by get_cnf_parse_tree, LLOneParser.get_llone_parse_tree, "
        "RecursiveDecentParser.get_parse_tree (left and right) and FCFG.get_parse_tree is validated (finite tree without shared nodes, root = start "
        "symbol, every inner node with its children is a production of the grammar being parsed - the normal form for "
        "CNF trees -, childless variables justified by an epsilon production, leaves spell the word); every "
        "get_leftmost/rightmost_derivation of such a tree is validated step by step; non-members must raise the "
        "documented exception (recursive descent: judged only on grammars without epsilon productions, unit cycles and "
        "left/right-recursive variables, under a step budget). Non-trivial: the grammar has >=2 productions and a "
        "member word of length >=2; distinct = case hash." % N +
        ' Later additions: derivation listings also from inner nodes and repeated; LL(1) nullable tails; print-alike and blank-containing terminals; words in several forms; layered grammars (no epsilon, no recursion, bodies starting with variables, alternatives sharing a tail) whose members the recursive-descent parser must all accept, from the left and from the right.')
ASSUMPTIONS = ["the empty word is not judged for the normal-form tree",
               "RecursionError / budget overrun of the recursive-descent parser on left/right-recursive grammars is "
               "documented behaviour: counted, not judged"]
TIERS = {
    "quick": {"workers": 4, "random": 700},
    "thorough": {"workers": 16, "random": 7000, "pytest": True, "exhaustive": True, "hard_timeout": 3300},
}
MIN = {"quick": {"C15.FCFG.get_parse_tree": 1000, "C15.CFG.get_cnf_parse_tree": 5000, "C15.LLOneParser.get_llone_parse_tree": 1000,
                 "C15.RecursiveDecentParser.get_parse_tree": 2000, "C15.ParseTree.get_leftmost_derivation": 3000,
                 "C15.ParseTree.get_rightmost_derivation": 3000},
       "thorough": {"C15.CFG.get_cnf_parse_tree": 100000, "C15.ParseTree.get_leftmost_derivation": 50000}}

PARSER = weakref.WeakKeyDictionary()     # parser object -> ref grammar
TREES = {}                               # id(tree) -> (tree, ref grammar, word)


def anchors():
    from pyformlang.cfg.cyk_table import CYKTable
    from pyformlang.cfg.parse_tree import ParseTree
    from pyformlang.cfg.recursive_decent_parser import RecursiveDecentParser as R
    from pyformlang.cfg.llone_parser import LLOneParser as P
    return [CYKTable._propagate_in_cyk_table, CYKTable.get_parse_tree, ParseTree.get_leftmost_derivation,
            ParseTree.get_rightmost_derivation, R._get_parse_tree_sub, P.get_llone_parse_tree]


def remember(tree, ref, word):
    """a validated tree: the root and every inner variable node (with its own yield) become known, so that a
    derivation listing asked of any of them can be judged"""
    if len(TREES) > 4000:
        TREES.clear()
    TREES[id(tree)] = (tree, ref, tuple(word))
    from pyformlang.cfg import Variable, Terminal
    todo = [tree]
    n = 0
    while todo and n < 60:
        x = todo.pop()
        n += 1
        for s_ in x.sons:
            if isinstance(s_.value, Variable) and id(s_) not in TREES:
                TREES[id(s_)] = (s_, ref, tuple(leaves_of(s_)))
            todo.append(s_)


def leaves_of(node):
    from pyformlang.cfg import Variable
    out = []
    todo = [node]
    n = 0
    while todo and n < 500:
        x = todo.pop()
        n += 1
        if not x.sons:
            if not isinstance(x.value, Variable):
                out.append(x.value.value)
        else:
            todo.extend(reversed(x.sons))
    return out


def grammar_tags(ref):
    t = []
    if ref.has_eps_prod():
        t.append("has_epsilon_production")
    return t


# ------------------------------------------------------------ CNF trees

def pre_cnf(self, args, kwargs):
    ref = ref_of(self)
    try:
        nf = ref_of(self.to_normal_form())
    except Exception:
        nf = None
    return ref, nf


def post_cnf(st, self, args, kwargs, result, exc):
    from pyformlang.cfg.cyk_table import DerivationDoesNotExist
    ref, nf = st
    w = word_values(args[0])
    if w is None or nf is None:
        return
    if len(w) == 0:
        core.LOG.discard("empty_word_for_cnf_tree")
        return
    member = w in ref.words(len(w))
    if exc is not None:
        if isinstance(exc, DerivationDoesNotExist):
            if member:
                core.report(PROP, "cnf_tree", "member-refused", {"word": list(w)})
        else:
            core.report(PROP, "cnf_tree", "exception:" + type(exc).__name__, {"word": list(w), "member": member})
        return
    if not member:
        core.report(PROP, "cnf_tree", "non-member-parsed", {"word": list(w)})
        return
    err = validate_tree(result, nf, w)
    if err:
        core.report(PROP, "cnf_tree", "tree:" + err, {"word": list(w)})
        return
    remember(result, nf, w)


# ------------------------------------------------------------ LL(1) and recursive descent

def post_parser_init(st, self, args, kwargs, result, exc):
    if exc is None and args:
        PARSER[self] = ref_of(args[0])


def pre_parser(self, args, kwargs):
    return PARSER.get(self)


def post_ll1(ref, self, args, kwargs, result, exc):
    if ref is None or exc is not None:
        return              # refusals of the LL(1) parser are C14's business
    w = word_values(args[0])
    if w is None:
        return
    err = validate_tree(result, ref, w)
    if err:
        core.report(PROP, "ll1_tree", "tree:" + err, {"word": list(w)}, grammar_tags(ref))
        return
    remember(result, ref, w)


def recursive_variables(ref):
    """variables that are directly or indirectly left- or right-recursive, or on a unit cycle"""
    nul = ref.nullable()
    left, right = {}, {}
    for h, b in ref.prods:
        for i, x in enumerate(b):
            if x[0] == "V":
                left.setdefault(h, set()).add(x[1])
            if not (x[0] == "V" and x[1] in nul):
                break
        for x in reversed(b):
            if x[0] == "V":
                right.setdefault(h, set()).add(x[1])
            if not (x[0] == "V" and x[1] in nul):
                break

    def cyc(adj):
        out = set()
        for s in ref.variables:
            seen = set()
            st = [s]
            while st:
                x = st.pop()
                for y in adj.get(x, ()):
                    if y == s:
                        out.add(s)
                    if y not in seen:
                        seen.add(y)
                        st.append(y)
        return out
    return cyc(left) | cyc(right)


def post_rd(ref, self, args, kwargs, result, exc):
    from pyformlang.cfg.cfg import NotParsableException
    if ref is None:
        return
    w = word_values(args[0])
    if w is None:
        return
    left = args[1] if len(args) > 1 else kwargs.get("left", True)
    sub = "rd_tree_left" if left else "rd_tree_right"
    member = w in ref.words(len(w))
    documented_ok = not ref.has_eps_prod() and not recursive_variables(ref)
    if exc is not None:
        if isinstance(exc, core.StepBudgetExceeded):
            # backtracking is exponential on grammars with central recursion: an overrun is not a proof of
            # non-termination - counted, never judged
            core.LOG.count("C15.rd_budget_overrun_documented_ok" if documented_ok else "C15.rd_documented_nontermination")
            return
        if isinstance(exc, RecursionError):
            if documented_ok:
                core.report(PROP, sub, "no-termination:RecursionError", {"word": list(w)})
            else:
                core.LOG.count("C15.rd_documented_nontermination")
            return
        if isinstance(exc, NotParsableException):
            if member and documented_ok:
                core.report(PROP, sub, "member-refused", {"word": list(w)})
            return
        core.report(PROP, sub, "exception:" + type(exc).__name__, {"word": list(w), "member": member})
        return
    if not member:
        core.report(PROP, sub, "non-member-parsed", {"word": list(w)})
        return
    err = validate_tree(result, ref, w)
    if err:
        core.report(PROP, sub, "tree:" + err, {"word": list(w)}, grammar_tags(ref))
        return
    remember(result, ref, w)


# ------------------------------------------------------------ FCFG (Earley) trees

def pre_fcfg(self, args, kwargs):
    from vf.props import c18
    from vf.ref import fs as rfs
    from vf.ref import cfg as rc
    try:
        prods, start, atoms = c18.fcfg_ref(self)
    except c18.InconsistentTyping:
        core.LOG.discard("fcfg_inconsistently_typed")
        return None
    if start is None:
        return None
    gp, s0 = rfs.ground(prods, start, sorted(atoms, key=repr) or ["x"])
    return ref_of(self), rc.Grammar(gp, s0)


def post_fcfg(st, self, args, kwargs, result, exc):
    from pyformlang.cfg.cfg import NotParsableException
    if st is None:
        return
    skel, grounded = st
    w = word_values(args[0])
    if w is None:
        return
    member = w in grounded.words(len(w))
    tags = list(core.LOG.case_tags)
    if exc is not None:
        if isinstance(exc, NotParsableException):
            if member:
                core.report(PROP, "fcfg_tree", "member-refused", {"word": list(w)}, tags)
        else:
            core.report(PROP, "fcfg_tree", "exception:" + type(exc).__name__, {"word": list(w), "member": member}, tags)
        return
    if not member:
        core.report(PROP, "fcfg_tree", "non-member-parsed", {"word": list(w)}, tags)
        return
    err = validate_tree(result, skel, w)
    if err:
        core.report(PROP, "fcfg_tree", "tree:" + err, {"word": list(w)}, tags)
        return
    remember(result, skel, w)


# ------------------------------------------------------------ derivations

def pre_deriv(self, args, kwargs):
    hit = TREES.get(id(self))
    if hit is None or hit[0] is not self:
        return None
    return hit


def tree_tags(tree, ref):
    """does the tree contain an epsilon subtree (childless variable)? a terminal son that is not the last son?"""
    from pyformlang.cfg import Variable, Terminal
    t = set()
    todo = [tree]
    n = 0
    while todo and n < 2000:
        x = todo.pop()
        n += 1
        if not x.sons and isinstance(x.value, Variable):
            t.add("epsilon_subtree")
        for i, s in enumerate(x.sons):
            if isinstance(s.value, Terminal) and not isinstance(s.value, Variable) and i != len(x.sons) - 1:
                t.add("terminal_son_not_last")
        todo.extend(x.sons)
    return sorted(t)


def make_post_deriv(leftmost):
    name = "leftmost_derivation" if leftmost else "rightmost_derivation"

    def post(hit, self, args, kwargs, result, exc):
        if hit is None:
            return          # a sub-tree (recursive call) or a tree we did not see being produced
        tree, ref, w = hit
        tags = tree_tags(tree, ref)
        if exc is not None:
            core.report(PROP, name, "exception:" + type(exc).__name__, {"word": list(w)}, tags)
            return
        sub_ref = ref
        if node_sym(tree.value) != ("V", ref.start):
            # an inner node: its sub-tree derives its own yield from its own symbol
            from vf.ref.cfg import Grammar
            sub_ref = Grammar(ref.prods, tree.value.value)
        err = validate_derivation(result, sub_ref, node_sym(tree.value), w, leftmost)
        if err:
            core.report(PROP, name, err, {"word": list(w), "derivation": repr(result)[:300]}, tags)
    return post


def install():
    from pyformlang.cfg import CFG
    from pyformlang.cfg.llone_parser import LLOneParser
    from pyformlang.cfg.recursive_decent_parser import RecursiveDecentParser as R
    from pyformlang.cfg.parse_tree import ParseTree
    m = core.monitored
    m(CFG, "get_cnf_parse_tree", PROP, pre_cnf, post_cnf)
    m(LLOneParser, "__init__", PROP, None, post_parser_init)
    m(LLOneParser, "get_llone_parse_tree", PROP, pre_parser, post_ll1)
    m(R, "__init__", PROP, None, post_parser_init)
    m(R, "get_parse_tree", PROP, pre_parser, post_rd)
    m(ParseTree, "get_leftmost_derivation", PROP, pre_deriv, make_post_deriv(True))
    m(ParseTree, "get_rightmost_derivation", PROP, pre_deriv, make_post_deriv(False))
    from pyformlang.fcfg import FCFG
    m(FCFG, "get_parse_tree", PROP, pre_fcfg, post_fcfg)
    core.budget_funcs(core.existing(R, "_get_parse_tree_sub", "_match", "get_parse_tree"))


def plan(tier, rng, sl, nslices, stats):
    from vf.props.c14 import ll1_biased
    cfg = TIERS[tier]
    for i in range(cfg["random"]):
        r = i % 4
        if r == 0:
            yield dict(ll1_biased(rng), parsers=["cnf", "ll1", "rd"])
        elif i % 8 == 6:
            yield dict(gcfg.layered_case(rng), parsers=["cnf", "rd"])
        elif r == 1:
            # recursive-descent friendly: no epsilon, bodies start with a terminal (no left recursion)
            c = ll1_biased(rng)
            c["prods"] = [p for p in c["prods"] if p[1] and p[1][0][0] == "T"]
            # make it ambiguous sometimes
            if c["prods"] and rng.random() < 0.5:
                p = rng.choice(c["prods"])
                c["prods"].append([p[0], p[1] + [["T", rng.randrange(c["nt"])]]])
            yield dict(c, parsers=["cnf", "rd"])
        else:
            yield dict(gcfg.random_case(rng, max_vars=3, max_terms=rng.choice([2, 2, 3]), max_prods=6, max_body=3,
                                            vcs=["str", "lower", "int", "lookalike", "spaced"]),
                       parsers=["cnf", "rd"] if r == 2 else ["cnf", "ll1"])
    from vf.props import c18
    from vf.props.c14 import nullable_body_case, nullable_tail_case
    if sl == 0:
        # scale cases (one worker): a right-recursive feature-free grammar and sentences of 520 tokens; a grammar that
        # already holds ten helper variables, extended and parsed through its normal form
        n = 520
        yield {"kind": "fcfg", "via": "text", "prods": [["S", {}, [["V", "L", {}], ["T", "b"]]],
                                                      ["L", {}, [["T", "a"], ["V", "L", {}]]], ["L", {}, [["T", "b"]]]],
               "long_words": [["a"] * n + ["b", "b"], ["a"] * n + ["b"], ["a"] * (n // 2) + ["b", "b"]]}
        yield dict(gcfg.long_body_case(rng), parsers=["cnf"])
    for i in range(cfg["random"] // 6):
        yield dict(nullable_tail_case(rng), parsers=["cnf", "ll1"])
    for i in range(cfg["random"] // 5):
        yield c18.rand_fcfg(rng) if i % 3 else c18.epsilon_fcfg(rng)
    for i in range(cfg["random"] // 6):
        yield dict(nullable_body_case(rng), parsers=["cnf", "ll1"])
    if cfg.get("exhaustive"):
        tot = 0
        for i, c in enumerate(gcfg.exhaustive_cases(3)):
            tot += 1
            if i % nslices == sl:
                yield dict(c, parsers=["cnf"])
        stats.extra["exhaustive_complete"] = True
        stats.extra["exhaustive_scopes"] = "all %d grammars with 2 variables, 2 terminals, <=3 productions of body length <=2 (CNF trees)" % tot


def fcfg_tree_tags(c):
    """ambiguity is what makes the Earley chart share partial trees"""
    from vf.props import c18
    return c18.case_tags(c)


def run_fcfg(c, stats):
    import itertools
    from vf.props import c18
    stats.cls("fcfg")
    ok, g = call(c18.build_fcfg, c)
    if not ok:
        return False
    trees = []
    with core.case(c, fcfg_tree_tags(c)):
        for w in itertools.chain.from_iterable(itertools.product("ab", repeat=k) for k in range(N + 1)):
            ok, t = call(g.get_parse_tree, values.word_form(w, len(w)))
            if ok:
                trees.append(t)
        for w in c.get("long_words", ()):
            ok, t = call(g.get_parse_tree, list(w))          # sentences of several hundred tokens
        for t in trees[:20]:
            call(t.get_leftmost_derivation)
            call(t.get_rightmost_derivation)
        for t in trees[:8]:
            inner = [s_ for s_ in t.sons] + [g_ for s_ in t.sons for g_ in s_.sons]
            for s_ in inner[:6]:
                call(s_.get_leftmost_derivation)
                call(s_.get_rightmost_derivation)
            call(t.get_leftmost_derivation)
            call(t.get_rightmost_derivation)
    return bool(trees)


def run_case(c, stats):
    if c.get("kind") == "fcfg":
        return run_fcfg(c, stats)
    from pyformlang.cfg.llone_parser import LLOneParser
    from pyformlang.cfg.recursive_decent_parser import RecursiveDecentParser
    g = gcfg.build(c)
    with core.oracle_mode():
        ref = ref_of(g)
        if ref.start is None:
            core.LOG.discard("no_start")
            return False
        L = ref.words(N)
        terms = sorted(ref.terminals, key=repr)[:3 if c.get("vc") in ("lookalike", "spaced") else 2]
        rec = recursive_variables(ref)
        stats.cls("recursive" if rec else "non_recursive")
        stats.cls("eps_prods" if ref.has_eps_prod() else "eps_free")
    words = [w for w in gcfg.words_over(terms, N if len(terms) <= 1 else 3, foreign=True) if w.count("zz_foreign") <= 1]
    words += [w for w in L if len(w) == 4][:6]
    trees = []
    if "cnf" in c["parsers"]:
        for i, w in enumerate(words):
            ok, t = call(g.get_cnf_parse_tree, values.word_form(w, i))
            if ok:
                trees.append(t)
    if "ll1" in c["parsers"]:
        ok, p = call(LLOneParser, g)
        if ok:
            for i, w in enumerate(words):
                ok, t = call(p.get_llone_parse_tree, values.word_form(w, i + 1))
                if ok:
                    trees.append(t)
    if "rd" in c["parsers"]:
        ok, p = call(RecursiveDecentParser, g)
        if ok:
            doc_ok = not ref.has_eps_prod() and not rec
            budget = 200000 if doc_ok else 15000
            rd_words = words[:25] if doc_ok else words[1:5]
            if c.get("layered") and doc_ok:
                # members first (every one of them up to six symbols), then some non-members
                mem = sorted(ref.words(6), key=lambda x: (len(x), repr(x)))[:24]
                rd_words = [list(w) for w in mem] + [w for w in words if tuple(w) not in set(mem)][:8]
            for w in rd_words:
                for left in (True, False):
                    try:
                        with core.step_budget(budget):
                            ok, t = call(p.get_parse_tree, values.word_form(w, len(w) + left), left)
                    except core.StepBudgetExceeded:
                        core.LOG.depth = 0
                        core.LOG.count("C15.rd_budget_overrun")
                        continue
                    if ok:
                        trees.append(t)
    if c.get("longbody"):
        from pyformlang.cfg import CFG, Production, Terminal
        okn, nf = call(g.to_normal_form)
        if okn:
            s_ = g.start_symbol
            t0_, t1_, t2_ = (gcfg.tval(c, j) for j in range(3))
            ok4, g3 = call(CFG, start_symbol=s_, productions=set(nf.productions) |
                           {Production(s_, [Terminal(t0_), s_, Terminal(t1_), Terminal(t2_)])})
            if ok4:
                for w in c["long_words"][:2]:
                    ww = [gcfg.tval(c, j) for j in w]
                    for cand in [ww, [t0_] + ww + [t1_, t2_]] + [[t0_] + ww[i:] for i in range(1, len(ww))] + \
                            [[t0_] + ww[i:] + [t1_, t2_] for i in range(1, len(ww))]:
                        ok5, t5 = call(g3.get_cnf_parse_tree, cand)
                        if ok5:
                            trees.append(t5)
    for t in trees[:40]:
        call(t.get_leftmost_derivation)
        call(t.get_rightmost_derivation)
    for t in trees[:12]:
        # the listing is asked again, of inner nodes (first and non-first sons) and of the root once more
        inner = [s_ for s_ in t.sons] + [g_ for s_ in t.sons for g_ in s_.sons]
        for s_ in inner[:6]:
            call(s_.get_leftmost_derivation)
            call(s_.get_rightmost_derivation)
        call(t.get_leftmost_derivation)
        call(t.get_rightmost_derivation)
    return len(ref.prods) >= 2 and any(len(w) >= 2 for w in L)
