"""C02 - equivalence decision and canonical minimisation."""
from vf import core, extract
from vf.gen import fa as gfa
from vf.ref import nfa as rn
from vf.worker import call
from vf.props.c01 import str_collision

PROP = "C02"
RULE = ("ordered pairs of automata (eps-NFA/NFA/DFA, both orders are separate monitored calls): "
        "equal-language partners derived reference-side (unreachable states, explicit sink, dead state, larger "
        "alphabet, eps padding, renaming, duplicated start), near-miss partners (flip final, drop/redirect an edge), "
        "independent random partners, empty-language shapes; is_equivalent_to/== judged against exact reference "
        "equivalence, minimize() judged for equivalence, reachability, pairwise distinguishability (Moore on the "
        "extracted result) and isomorphism of the two minimised sides of reference-equal pairs. "
        "Non-trivial: both automata have >=1 transition and at least one language is neither empty nor Sigma*; "
        "distinct = canonical hash of the pair."
        ' Later additions: explicit incomplete sinks vs the same language without them; an operand edited through the public mutators (start state included) after a comparison and compared again; alphabets whose symbol values are not mutually orderable (1 next to "1", 0 next to the empty string).')
ASSUMPTIONS = ["which canonical convention minimize() uses (trim or complete) is not demanded, only that it is the "
               "same on both sides of an equal pair"]
TIERS = {
    "quick": {"workers": 4, "random": 2500},
    "thorough": {"workers": 16, "random": 30000, "pytest": True, "exhaustive": True, "hard_timeout": 3000},
}
MIN = {"quick": {"C02.DeterministicFiniteAutomaton.is_equivalent_to": 500, "C02.FiniteAutomaton.__eq__": 200,
                 "C02.DeterministicFiniteAutomaton.minimize": 500},
       "thorough": {"C02.DeterministicFiniteAutomaton.is_equivalent_to": 10000,
                    "C02.DeterministicFiniteAutomaton.minimize": 10000}}
PAIR_VCS = ["int", "str", "merged"]


def anchors():
    from pyformlang.finite_automaton import DeterministicFiniteAutomaton as D
    from pyformlang.finite_automaton.partition import Partition
    return [D._get_partition, D._is_equivalent_to_minimal, Partition.split]


def has_reachable_dead(ref):
    return bool(ref.reachable() - ref.coreachable())


def tags_pair(ra, rb):
    t = []
    if has_reachable_dead(ra) or has_reachable_dead(rb):
        t.append("reachable_dead_state")
    if ra.is_empty() or rb.is_empty():
        t.append("empty_language_operand")
    if str_collision(ra) or str_collision(rb):
        t.append("state_str_collision")
    if len(ra.starts) == 0 or len(rb.starts) == 0:
        t.append("no_start_state")
    return t


def is_fa(x):
    from pyformlang.finite_automaton import FiniteAutomaton
    return isinstance(x, FiniteAutomaton)


def pre_pair(self, args, kwargs):
    other = args[0] if args else kwargs.get("other")
    if not is_fa(other):
        return None
    return extract.fa(self), extract.fa(other)


def make_post_equiv(name):
    def post(st, self, args, kwargs, result, exc):
        if st is None:
            return
        ra, rb = st
        tags = tags_pair(ra, rb)
        kinds = extract.fa_kind(self) + "/" + extract.fa_kind(args[0])
        if exc is not None:
            core.report(PROP, "equivalence", "exception:" + type(exc).__name__, {"kinds": kinds, "via": name}, tags)
            return
        w = rn.equiv(ra, rb)
        if bool(result) != (w is None):
            core.report(PROP, "equivalence", "false-equivalent" if result else "false-not-equivalent",
                        {"kinds": kinds, "via": name, "word": w}, tags)
    return post


def pre_min(self, args, kwargs):
    return extract.fa(self)


def post_min(ref, self, args, kwargs, result, exc):
    tags = []
    if str_collision(ref):
        tags.append("state_str_collision")
    if has_reachable_dead(ref):
        tags.append("reachable_dead_state")
    if ref.is_empty():
        tags.append("empty_language_operand")
    kind = extract.fa_kind(self)
    if exc is not None:
        core.report(PROP, "minimize", "exception:" + type(exc).__name__, {"cls": kind}, tags)
        return
    res = extract.fa(result)
    if rn.equiv(ref, res) is not None:
        core.report(PROP, "minimize", "not-equivalent", {"cls": kind}, tags)
        return
    if not res.is_deterministic() or res.has_eps():
        core.report(PROP, "minimize", "not-deterministic", {"cls": kind}, tags)
        return
    unreach = res.states - res.reachable()
    if unreach:
        core.report(PROP, "minimize", "unreachable-state", {"cls": kind, "states": sorted(map(repr, unreach))}, tags)
    pair = rn.moore_distinguishable(res)
    if pair is not None:
        core.report(PROP, "minimize", "indistinguishable-states", {"cls": kind, "pair": [repr(x) for x in pair]}, tags)


def install():
    from pyformlang.finite_automaton import (EpsilonNFA, DeterministicFiniteAutomaton)
    from pyformlang.finite_automaton.finite_automaton import FiniteAutomaton
    core.monitored(FiniteAutomaton, "is_equivalent_to", PROP, pre_pair, make_post_equiv("is_equivalent_to"))
    core.monitored(DeterministicFiniteAutomaton, "is_equivalent_to", PROP, pre_pair, make_post_equiv("is_equivalent_to"))
    core.monitored(FiniteAutomaton, "__eq__", PROP, pre_pair, make_post_equiv("=="))
    core.monitored(EpsilonNFA, "minimize", PROP, pre_min, post_min)
    core.monitored(DeterministicFiniteAutomaton, "minimize", PROP, pre_min, post_min)


# ---------------------------------------------------------------- workload

def empty_shapes(rng):
    """empty-language automata in every shape"""
    n = rng.randint(1, 3)
    c = gfa.random_case(rng, max_states=3, max_syms=2, vcs=PAIR_VCS)
    how = rng.choice(["nostart", "nofinal", "unreachable_final", "nothing"])
    if how == "nostart":
        c["start"] = []
    elif how == "nofinal":
        c["final"] = []
    elif how == "unreachable_final":
        m = c["n"]
        c["n"] = m + 1
        c["final"] = [m]
    else:
        c["trans"] = []
        c["final"] = []
    c["shape"] = how
    return c


def sink_pair(rng):
    """a partial DFA with mostly final states, one live non-final state and an explicit dead part (a sink that lacks
    some of its self loops, possibly a second dead state behind it), and the same language written without the sink"""
    k = 2
    live = rng.randint(3, 5)
    nonfinal = rng.sample(range(live), rng.choice([1, 1, 2]))
    finals = [s for s in range(live) if s not in nonfinal]
    sink = live
    dead2 = live + 1 if rng.random() < 0.35 else None
    trans, trans_nosink = [], []
    for p in range(live):
        for a in range(k):
            r = rng.random()
            if r < 0.6 or (p in nonfinal and a == 0):
                q = rng.choice(finals) if p in nonfinal and a == 0 else rng.randrange(live)
                trans.append([p, a, q])
                trans_nosink.append([p, a, q])
            elif r < 0.88:
                trans.append([p, a, sink])
    loops = rng.sample(range(k), rng.choice([0, 1, 1]))
    for a in loops:
        trans.append([sink, a, sink])
    if dead2 is not None:
        free = [a for a in range(k) if a not in loops]
        if free:
            trans.append([sink, free[0], dead2])
        if rng.random() < 0.5:
            trans.append([dead2, rng.randrange(k), rng.choice([sink, dead2])])
    vc = rng.choice(PAIR_VCS)
    n = live + (2 if dead2 is not None else 1)
    a = {"kind": "dfa", "n": n, "k": k, "start": [0], "final": finals, "trans": trans, "extra": [], "vc": vc,
         "token": False, "shape": "explicit_sink"}
    b = {"kind": "dfa", "n": live, "k": k, "start": [0], "final": finals, "trans": trans_nosink, "extra": [], "vc": vc,
         "token": False, "shape": "without_sink"}
    if rng.random() < 0.5:
        a["shuffle"] = rng.randrange(1 << 30)
    return (a, b) if rng.random() < 0.5 else (b, a)


def plan(tier, rng, sl, nslices, stats):
    cfg = TIERS[tier]
    # scale cases: alphabets of more than 64 symbols (every worker), hundreds of classes (one worker)
    for mk in [gfa.many_symbols_case] * 40 + ([gfa.many_classes_case] if sl == 0 else []):
        a = mk(rng)
        a.pop("long_words", None)
        yield {"pair": [a, gfa.derive_equal(rng, a) if rng.random() < 0.6 else gfa.derive_near(rng, a)]}
    for i in range(cfg["random"]):
        r = rng.random()
        if i % 8 == 5:
            a, b = sink_pair(rng)
            yield {"pair": [a, b]}
            continue
        if i % 40 == 11:
            a = gfa.large_case(rng)
            b = gfa.derive_equal(rng, a) if rng.random() < 0.5 else gfa.derive_near(rng, a)
            b.pop("long_words", None)
            yield {"pair": [a, b]}
            continue
        if r < 0.2:
            # "mixed" / "binary": alphabets whose symbol values are not mutually orderable (1 and "1", 0 and "")
            vc = rng.choice(["tuple", "inject"]) if r < 0.12 else rng.choice(["mixed", "mixed", "binary", "hashclash"])
            a = gfa.random_case(rng, max_states=4, max_syms={"mixed": 3, "binary": 4}.get(vc, 2), vcs=[vc])
            b = gfa.derive_equal(rng, a) if rng.random() < 0.5 else gfa.derive_near(rng, a)
            if b["vc"] != a["vc"]:
                b["vc"] = a["vc"]
            if a["vc"] == "inject":
                b["perm"] = list(range(max(b["n"], 1)))
                rng.shuffle(b["perm"])
                b["sperm"] = a["sperm"]
        else:
            a = gfa.random_case(rng, max_states=4, max_syms=2, vcs=PAIR_VCS)
            if r < 0.5:
                b = gfa.derive_equal(rng, a)
                if rng.random() < 0.3:
                    b = gfa.derive_equal(rng, b)
            elif r < 0.7:
                b = gfa.derive_near(rng, a)
            elif r < 0.8:
                a = empty_shapes(rng)
                b = empty_shapes(rng)
            else:
                b = gfa.random_case(rng, max_states=3, max_syms=2, vcs=PAIR_VCS)
            if rng.random() < 0.3 and b.get("derived") != "rename":
                # cross-class: rebuild the partner as another class when the structure allows it
                b = dict(b, kind=rng.choice(["enfa", "nfa"]) if not any(t[1] == -1 for t in b["trans"]) else "enfa")
        yield {"pair": [a, b]}
    if cfg.get("exhaustive"):
        # all ordered pairs of DFAs with <= 2 states over 1 symbol (complete), sliced
        dfas = list(all_small_dfas(2, 1))
        idx = 0
        for x in dfas:
            for y in dfas:
                if idx % nslices == sl:
                    yield {"pair": [x, y], "exh": 1}
                idx += 1
        stats.extra["exhaustive_complete"] = True
        stats.extra["exhaustive_scopes"] = "all %d ordered pairs of DFAs with <=2 states over 1 symbol" % (len(dfas) ** 2)
        dfas2 = list(all_small_dfas(2, 2))
        for _ in range(3000):
            yield {"pair": [rng.choice(dfas2), rng.choice(dfas2)]}


def all_small_dfas(maxn, k):
    import itertools
    for n in range(1, maxn + 1):
        slots = [(p, a) for p in range(n) for a in range(k)]
        for targets in itertools.product(range(-1, n), repeat=len(slots)):
            trans = [[p, a, t] for (p, a), t in zip(slots, targets) if t >= 0]
            for start in [[]] + [[s] for s in range(n)]:
                for fmask in range(1 << n):
                    yield {"kind": "dfa", "n": n, "k": k, "start": start,
                           "final": [i for i in range(n) if fmask >> i & 1], "trans": trans,
                           "extra": [], "vc": "int", "token": False}


def run_case(c, stats):
    ca, cb = c["pair"]
    A, B = gfa.build(ca), gfa.build(cb)
    stats.cls("kinds:%s/%s" % (ca["kind"], cb["kind"]))
    stats.cls("derived:" + str(cb.get("derived", cb.get("shape", "independent"))))
    with core.oracle_mode():
        ra, rb = extract.fa(A), extract.fa(B)
        same = rn.equiv(ra, rb) is None
        stats.cls("ref_equal" if same else "ref_unequal")
        nontrivial = bool(ra.trans) and bool(rb.trans) and (
            (not ra.is_empty() and not rn.complement(ra).is_empty()) or
            (not rb.is_empty() and not rn.complement(rb).is_empty()))
        for t in tags_pair(ra, rb):
            stats.cls("tag:" + t)
    call(A.is_equivalent_to, B)
    call(B.is_equivalent_to, A)
    call(lambda: A == B)
    call(lambda: B == A)
    call(A.is_equivalent_to, A)
    oka, ma = call(A.minimize)
    okb, mb = call(B.minimize)
    if oka and okb and same:
        with core.oracle_mode():
            xa, xb = extract.fa(ma), extract.fa(mb)
            core.LOG.count("C02.isomorphism")
            if xa.is_deterministic() and xb.is_deterministic() and not rn.isomorphic(xa, xb):
                core.report(PROP, "minimize", "not-isomorphic",
                            {"sizes": [len(xa.states), len(xb.states)]}, tags_pair(ra, rb))
    if ca.get("edits"):
        # one operand is edited through the public mutators (start state included) after it has been compared, and
        # compared again: the verdict follows the automaton as it is now
        gfa.apply_edits(A, ca)
        stats.cls("edited_then_compared")
        call(A.is_equivalent_to, B)
        call(B.is_equivalent_to, A)
        call(lambda: A == B)
        okc, cp = call(A.copy)
        if okc:
            call(A.is_equivalent_to, cp)
            call(cp.is_equivalent_to, A)
    if oka:
        # idempotence: minimising a minimal automaton keeps the size
        ok2, m2 = call(ma.minimize)
        if ok2:
            with core.oracle_mode():
                if len(extract.fa(m2).states) != len(extract.fa(ma).states):
                    core.report(PROP, "minimize", "not-idempotent", {}, tags_pair(ra, ra))
    return nontrivial
