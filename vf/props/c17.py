"""C17 - indexed-grammar emptiness is exact and independent of rule order."""
import itertools
import random
import weakref

from vf import core, extract
from vf.gen import fa as gfa
from vf.ref import ig as ri
from vf.ref import nfa as rn
from vf.worker import call

PROP = "C17"
TECHNIQUE = "runtime contracts with an independent antichain fixpoint oracle, all rule permutations x ordering heuristics; products judged against a reference-side product"
RULE = ("reduced-form indexed grammars (<=4 non-terminals, <=2 indices, <=8 rules: end / production / consumption / "
        "duplication; several consumption rules for one (index, variable); recursion through the stack; no end rule; "
        "start absent from the rules; duplicates) x every permutation of the rule list (<=5 rules; 24 sampled "
        "otherwise) x optim 0..8; every is_empty()/bool() call is compared with an independent antichain fixpoint "
        "(cross-checked by the all-subsets fixpoint and by bounded derivation search); all verdicts of one grammar "
        "must agree; remove_useless_rules() must keep the verdict; intersection(r).is_empty() is compared with the "
        "reference-side product with the reference-determinised r (Regex / DFA / eps-NFA, <=2 DFA states). "
        "Non-trivial: >=3 rules incl. a production or duplication rule; distinct = hash of the rule set."
        ' Later additions: grammars built around one derivation that returns to the pushing non-terminal (detour), several ways of consuming a pushed index (alternatives), duplication-rule variants over one pair; verdicts also judged against the rules as listed by the caller; products intersected again; the rule set grown after a query.')
ASSUMPTIONS = ["oracle step limit: a case on which the reference fixpoint gives up is discarded, never judged",
               "the library's marking is exponential on some duplication-heavy grammars: a case that exceeds the "
               "wall-clock watchdog is counted inconclusive (tolerated up to 15 % of the cases; the count is in the evidence), never judged"]
TIERS = {
    "quick": {"workers": 8, "random": 120, "products": 6, "word_products": 40, "case_timeout": 12, "inconclusive_tolerance": 0.15},
    "thorough": {"workers": 16, "random": 500, "products": 40, "word_products": 300, "case_timeout": 60, "inconclusive_tolerance": 0.10, "pytest": True, "exhaustive": True, "hard_timeout": 3300},
}
MIN = {"quick": {"C17.IndexedGrammar.is_empty": 10000, "C17.IndexedGrammar.remove_useless_rules": 100,
                 "C17.IndexedGrammar.intersection": 30, "C17.Rules.__init__": 10000},
       "thorough": {"C17.IndexedGrammar.is_empty": 200000, "C17.IndexedGrammar.intersection": 1000}}

EXPECT = weakref.WeakKeyDictionary()      # IndexedGrammar produced by intersection -> expected emptiness
_ORACLE = {}


def anchors():
    from pyformlang.indexed_grammar import IndexedGrammar as G
    from pyformlang.indexed_grammar import indexed_grammar as m
    from pyformlang.indexed_grammar.rule_ordering import RuleOrdering as O
    from pyformlang.fst import FST
    return [G.is_empty, G._duplication_processing, G._production_process, m.addrec_bis, m.addrec_ter,
            G.remove_useless_rules, FST.intersection, O._get_graph]


def ig_rules(g):
    """library IndexedGrammar -> rule tuples through its public attributes"""
    out = []
    for r in g.rules.rules:
        if r.is_end_rule():
            rt = r.right_term
            out.append(("end", r.left_term, tuple(rt) if isinstance(rt, list) else rt))
        elif r.is_production():
            out.append(("prod", r.left_term, r.right_term, r.production))
        elif r.is_duplication():
            out.append(("dup", r.left_term, r.right_terms[0], r.right_terms[1]))
    for f, rs in g.rules.consumption_rules.items():
        for r in rs:
            out.append(("cons", r.f_parameter, r.left_term, r.right))
    return out, g.start_variable


def oracle(rules, start):
    key = (frozenset(rules), start)
    if key not in _ORACLE:
        if len(_ORACLE) > 500:
            _ORACLE.clear()
        try:
            _ORACLE[key] = ri.nonempty(sorted(set(rules), key=repr), start)
        except ri.GaveUp:
            _ORACLE[key] = None
    v = _ORACLE[key]
    if v is None:
        raise core.OracleGaveUp()
    return v


def tags_rules(rules):
    t = []
    cons = {}
    for r in rules:
        if r[0] == "cons":
            cons.setdefault((r[1], r[2]), set()).add(r[3])
    if any(len(v) > 1 for v in cons.values()):
        t.append("several_consumptions_per_index_and_variable")
    if not any(r[0] == "end" for r in rules):
        t.append("no_end_rule")
    return t


def pre_empty(self, args, kwargs):
    rules, start = ig_rules(self)
    return rules, start, EXPECT.get(self)


def make_post_empty(invert):
    def post(st, self, args, kwargs, result, exc):
        rules, start, expect = st
        tags = tags_rules(rules) + ["optim:%s" % self.rules.optim]
        if expect is not None:
            tags.append("product")
        if exc is not None:
            core.report(PROP, "is_empty", "exception:" + type(exc).__name__, {"rules": len(rules)}, tags)
            return
        got_empty = (not result) if invert else bool(result)
        if len(rules) <= 60:
            exp_empty = not oracle(rules, start)
            if got_empty != exp_empty:
                core.report(PROP, "is_empty", "wrong-empty" if got_empty else "wrong-nonempty", {"rules": len(rules)}, tags)
        elif expect is None:
            core.LOG.discard("grammar_too_large_for_direct_oracle")
        if expect is not None and expect != "unknown" and got_empty != expect:
            core.report(PROP, "intersection", "wrong-empty" if got_empty else "wrong-nonempty", None, tags)
    return post


def pre_useless(self, args, kwargs):
    return ig_rules(self)


def post_useless(st, self, args, kwargs, result, exc):
    rules, start = st
    tags = tags_rules(rules)
    if exc is not None:
        core.report(PROP, "remove_useless_rules", "exception:" + type(exc).__name__, None, tags)
        return
    r2, s2 = ig_rules(result)
    if len(rules) > 60:
        core.LOG.discard("grammar_too_large_for_direct_oracle")     # e.g. the unpruned product inside FST.intersection
        return
    if start != "S":
        core.LOG.discard("start_variable_not_S")
        return
    if oracle(rules, start) != oracle(r2, s2):
        core.report(PROP, "remove_useless_rules", "verdict-changed", None, tags)


def pre_inter(self, args, kwargs):
    from pyformlang.regular_expression import Regex
    from pyformlang.finite_automaton import FiniteAutomaton
    other = args[0] if args else None
    if isinstance(other, Regex):
        reg = extract.fa(other.to_epsilon_nfa())
    elif isinstance(other, FiniteAutomaton):
        reg = extract.fa(other)
    else:
        return None
    if self in EXPECT:
        # a product intersected again: the workload knows the expectation (the word of the grammar is accepted by
        # every language so far); only exceptions are judged here
        return "chained"
    return ig_rules(self), reg


def post_inter(st, self, args, kwargs, result, exc):
    if st is None:
        return
    if st == "chained":
        core.LOG.count("C17.chained_intersections")
        if exc is not None:
            core.report(PROP, "intersection", "exception:" + type(exc).__name__, {"msg": str(exc)[:80]},
                        ["product_intersected_again"])
        return
    (rules, start), reg = st
    tags = tags_rules(rules)
    if exc is not None:
        core.report(PROP, "intersection", "exception:" + type(exc).__name__, {"msg": str(exc)[:80]}, tags)
        return
    dfa = rn.determinize(reg)
    if len(dfa.states) > 3:
        EXPECT[result] = "unknown"
        core.LOG.discard("product_dfa_too_large_for_oracle")
        return
    prules, pstart = ri.product(rules, dfa, start)
    try:
        ne = ri.nonempty(prules, pstart, limit=300000)
    except ri.GaveUp:
        EXPECT[result] = "unknown"
        core.LOG.discard("oracle_gave_up_on_product")
        return
    # cross-check in the non-empty direction: a derivable word accepted by r
    for w in ri.brute_words(rules, start):
        if reg.accepts(w) and not ne:
            raise AssertionError("oracle routes disagree on a product")
    core.LOG.count("C17.oracle_crosschecks")
    EXPECT[result] = not ne


def post_rules_init(st, self, args, kwargs, result, exc):
    if exc is not None:
        optim = args[1] if len(args) > 1 else kwargs.get("optim", 7)
        core.report(PROP, "ordering", "exception:" + type(exc).__name__, {"optim": optim, "msg": str(exc)[:60]},
                    ["optim:%s" % optim])


def install():
    from pyformlang.indexed_grammar import IndexedGrammar, Rules
    m = core.monitored
    m(IndexedGrammar, "is_empty", PROP, pre_empty, make_post_empty(False))
    m(IndexedGrammar, "__bool__", PROP, pre_empty, make_post_empty(True))
    m(IndexedGrammar, "remove_useless_rules", PROP, pre_useless, post_useless)
    m(IndexedGrammar, "intersection", PROP, pre_inter, post_inter)
    m(Rules, "__init__", PROP, None, post_rules_init)


# ---------------------------------------------------------------- workload

def rand_rules(rng, max_n=4):
    N = ["S", "A", "B", "C"][:rng.choice([2, 3, 4][:max_n - 1])]
    F = ["f", "g"][:rng.choice([1, 2])]
    rules = []
    for _ in range(rng.choice([2, 3, 4, 5, 6, 7, 8])):
        k = rng.random()
        if k < 0.2:
            r = ("end", rng.choice(N), rng.choice("ab"))
        elif k < 0.45:
            r = ("prod", rng.choice(N), rng.choice(N), rng.choice(F))
        elif k < 0.72:
            r = ("cons", rng.choice(F), rng.choice(N), rng.choice(N))
        else:
            r = ("dup", rng.choice(N), rng.choice(N), rng.choice(N))
        if r not in rules or rng.random() < 0.1:
            rules.append(r)
    if rng.random() < 0.1:
        rules = [r for r in rules if "S" not in r[1:]] or rules      # start absent from the rules
    return rules


def layered_rules(rng):
    """grammars whose (non-)emptiness needs the marking to propagate through several layers: every non-terminal
    X_i is defined from lower ones (end rule, duplication of two lower ones, production pushing an index towards a
    lower one, consumption rules - possibly several with one target), S on top"""
    names = ["S", "A", "B", "C", "D", "E"][:rng.randint(3, 6)]
    order = names[1:]
    rng.shuffle(order)
    layers = order + ["S"]          # defined bottom-up; S last
    rules = []
    defined = []
    pure = []
    pure_target = None
    for x in layers:
        r = rng.random()
        if not defined or r < 0.25:
            rules.append(("end", x, rng.choice("ab")))
        elif r < 0.6:
            rules.append(("dup", x, rng.choice(defined), rng.choice(defined)))
        elif r < 0.72:
            rules.append(("prod", x, rng.choice(defined), "f"))
        elif r < 0.86:
            # x is defined by consumption rules only (derives something only below an f), often sharing its target
            # with another such non-terminal
            z = pure_target if (pure_target is not None and rng.random() < 0.7) else rng.choice(defined)
            pure_target = z
            rules.append(("cons", "f", x, z))
            pure.append(x)
        else:
            y = rng.choice(defined)
            z = rng.choice(defined)
            rules.append(("prod", x, y, "f"))
            rules.append(("cons", "f", y, z))
            if rng.random() < 0.5:
                rules.append(("cons", "f", rng.choice(defined), z))     # two consumption rules, one target
        defined.append(x)
    if rng.random() < 0.35 and len(names) >= 3:
        # a non-generating non-terminal Z offered as one of several consumption alternatives, and used elsewhere
        # where its non-generation decides the verdict
        z = "Z"
        rules.append(("dup", z, z, z))
        cons = [r for r in rules if r[0] == "cons"]
        if cons:
            c = rng.choice(cons)
            alt = ("cons", c[1], c[2], z)
            rules.insert(rules.index(c) if rng.random() < 0.6 else len(rules), alt)
        else:
            y = rng.choice(defined)
            rules.append(("prod", "S", y, "f"))
            rules.append(("cons", "f", y, z))
            rules.append(("cons", "f", y, rng.choice(defined)))
        rules.append(("dup", rng.choice(names), z, rng.choice(defined)))
    for x in pure:
        # somebody pushes an f above a consumption-only non-terminal
        users = [n for n in names if n != x]
        rules.append(("prod", rng.choice(users), x, "f"))
    if rng.random() < 0.3:
        rules.append(("end", rng.choice(names), "b"))
    out = []
    for r in rules:
        if r not in out:
            out.append(r)
    return out


DETOUR_NAMES = ["A", "B", "C", "D", "X", "Y", "N0", "N1", "Left", "Right", "P", "Q", "U", "V", "B1", "B2"]


def detour_rules(rng):
    """a grammar built around ONE derivation: a walk S = X0 -> X1 -> ... -> Xn -> letter whose steps push an index,
    pop the top index, or duplicate beside a vanishing T; the X_i are drawn from a small pool WITH reuse, so the same
    non-terminal is met again on another stack level (recursion through the stack) and the walk is often the only way
    to a word.  Distractors: pops leading back to an earlier X_i, a non-generating alternative."""
    pool = ["S"] + rng.sample(DETOUR_NAMES, rng.randint(2, 4))
    stack = []
    rules = []
    cur = "S"
    used_t = False
    walk = [cur]
    pushers = []
    for _ in range(rng.randint(2, 7)):
        ch = ["dup"]
        if len(stack) < 2:
            ch += ["push", "push"]
        if stack:
            ch += ["pop", "pop"]
        k = rng.choice(ch)
        nxt = rng.choice(pool)
        if pushers and rng.random() < 0.35:
            nxt = pushers[-1]               # back to the non-terminal that pushed, one stack level higher
        if k == "push":
            f = rng.choice("fg")
            stack.append(f)
            pushers.append(cur)
            rules.append(("prod", cur, nxt, f))
            if rng.random() < 0.4:
                # a second way of consuming the pushed index right away, leading back into the walk
                rules.append(("cons", f, nxt, rng.choice(walk)))
        elif k == "pop":
            rules.append(("cons", stack.pop(), cur, nxt))
        else:
            used_t = True
            rules.append(("dup", cur, nxt, "T") if rng.random() < 0.7 else ("dup", cur, "T", nxt))
        cur = nxt
        walk.append(cur)
    rules.append(("end", cur, rng.choice("ab")))
    if used_t:
        rules.append(("end", "T", "epsilon"))
    for _ in range(rng.choice([0, 0, 1, 1, 2])):
        r = rng.random()
        if r < 0.6:
            rules.append(("cons", rng.choice("fg"), rng.choice(walk), rng.choice(walk)))
        elif r < 0.8:
            rules.append(("dup", "Z", "Z", "Z"))
            rules.append(("cons", rng.choice("fg"), rng.choice(walk), "Z"))
        else:
            rules.append(("prod", rng.choice(walk), rng.choice(walk), rng.choice("fg")))
    out = []
    for r in rules:
        if r not in out:
            out.append(r)
    rng.shuffle(out)
    return out


def alternatives_rules(rng):
    """A -> B[f] where the sets already marked for B offer SEVERAL ways of consuming f (B itself through B[f] -> .,
    {C} through B -> C T with C[f] -> ., {C, E} through B -> C E ...), some of them productive and some not, below a
    start symbol that needs A: the verdict hinges on the pass in which the production rule is the only one to learn
    something"""
    nm = rng.sample(DETOUR_NAMES, 8)
    A, B, D, Z = nm[0], nm[1], nm[2], "Z"
    cs = nm[3:6]
    f = rng.choice("fg")
    rules = [("end", D, rng.choice("ab")), ("end", "T", "epsilon"), ("prod", A, B, f)]
    top = rng.random()
    if top < 0.5:
        rules.append(("dup", "S", A, "T"))
    elif top < 0.7:
        rules.append(("dup", "S", "T", A))
    elif top < 0.85:
        rules.append(("dup", "S", A, A))
    else:
        rules[2] = ("prod", "S", B, f)
        A = "S"
    targets = [D, D, A, Z, B]
    ident = rng.random()
    if ident < 0.75:
        rules.append(("cons", f, B, rng.choice(targets)))
    for i in range(rng.randint(1, 2)):
        c = cs[i]
        if rng.random() < 0.7:
            rules.append(("dup", B, c, "T") if rng.random() < 0.6 else ("dup", B, "T", c))
            rules.append(("cons", f, c, rng.choice(targets)))
        else:
            e = cs[2]
            rules.append(("dup", B, c, e))
            rules.append(("cons", f, c, rng.choice(targets)))
            rules.append(("cons", f, e, rng.choice(targets)))
    if any(r[-1] == Z for r in rules):
        rules.append(("dup", Z, Z, Z))
    out = []
    for r in rules:
        if r not in out:
            out.append(r)
    rng.shuffle(out)
    return out


def dup_variants_rules(rng):
    """several duplication rules with one left symbol over the same pair of non-terminals (A -> B C, A -> C B,
    A -> B B, A -> A B ...), only some of them productive, plus a little context"""
    N = ["S"] + rng.sample(DETOUR_NAMES, 2)
    left = rng.choice(N)
    x, y = rng.choice(N), rng.choice(N)
    variants = [("dup", left, x, y), ("dup", left, y, x), ("dup", left, x, x), ("dup", left, y, y)]
    rules = rng.sample(variants, rng.randint(2, 3))
    for n in N:
        if rng.random() < 0.5:
            rules.append(("end", n, rng.choice("ab")))
    for r in rand_rules(rng, max_n=3)[:rng.randint(0, 3)]:
        ren = {"S": "S", "A": N[1], "B": N[2], "C": N[1]}
        rules.append(tuple(ren.get(t, t) if i in (1, 2, 3) and r[0] != "cons" or (r[0] == "cons" and i in (2, 3))
                           else t for i, t in enumerate(r)))
    out = []
    for r in rules:
        if r not in out:
            out.append(r)
    rng.shuffle(out)
    return out


def counters_rules(moduli):
    """a bottom marker g, any number of f, then one counter per modulus reading the same stack: a word is derived
    exactly when the number of f is p-1 modulo every p - the shortest derivation pushes lcm(moduli)-1 symbols and the
    marking needs about as many passes"""
    names = "XYZW"
    rules = [("prod", "S", "M", "g"), ("prod", "M", "M", "f"), ("end", "T", "t")]
    heads = [names[i] + "0" for i in range(len(moduli))]
    left = "M"
    for i in range(len(moduli) - 2):
        rules.append(("dup", left, heads[i], "R%d" % (i + 1)))
        left = "R%d" % (i + 1)
    rules.append(("dup", left, heads[-2], heads[-1]))
    for i, m in enumerate(moduli):
        for j in range(m):
            rules.append(("cons", "f", names[i] + str(j), names[i] + str((j + 1) % m)))
        rules.append(("cons", "g", names[i] + str(m - 1), "T"))
    return rules


def chain_rules(n):
    """S -> A0 T, A0 -> A1 T, ... : a dependency path of n non-terminals"""
    rules = [("dup", "S", "A0", "T"), ("end", "T", "epsilon"), ("end", "A%d" % (n - 1), "a")]
    for i in range(n - 1):
        rules.append(("dup", "A%d" % i, "A%d" % (i + 1), "T"))
    return rules


def tolib(rules, optim=7, start="S"):
    from pyformlang.indexed_grammar import (Rules, ConsumptionRule, EndRule, ProductionRule, DuplicationRule,
                                            IndexedGrammar)
    L = []
    for r in rules:
        if r[0] == "end":
            L.append(EndRule(r[1], r[2]))
        elif r[0] == "prod":
            L.append(ProductionRule(r[1], r[2], r[3]))
        elif r[0] == "cons":
            L.append(ConsumptionRule(r[1], r[2], r[3]))
        else:
            L.append(DuplicationRule(r[1], r[2], r[3]))
    if FORM == "iter":
        return IndexedGrammar(Rules(iter(L), optim), start)
    if FORM == "gen":
        return IndexedGrammar(Rules((r for r in L), optim), start)
    if FORM == "tuple":
        return IndexedGrammar(Rules(tuple(L), optim), start)
    return IndexedGrammar(Rules(L, optim), start)


FORM = None          # how the rule list is handed to Rules(): list (default), tuple, iterator, generator


def small_exhaustive():
    """all rule sets with non-terminals {S, A}, one index, <=3 rules"""
    N = ["S", "A"]
    allr = [("end", a, "a") for a in N] + [("prod", a, b, "f") for a in N for b in N] + \
           [("cons", "f", a, b) for a in N for b in N] + [("dup", a, b, c) for a in N for b in N for c in N]
    for k in (1, 2, 3):
        for combo in itertools.combinations(allr, k):
            yield list(combo)


def plan(tier, rng, sl, nslices, stats):
    cfg = TIERS[tier]
    if sl == 0:
        # scale cases (one worker): a derivation 209 pushes deep, a dependency path of 1100 non-terminals
        yield {"rules": [list(r) for r in counters_rules((2, 3, 5, 7))], "seed": 1, "scale": "counters"}
        yield {"rules": [list(r) for r in counters_rules((3, 4, 5))], "seed": 2, "scale": "counters"}
        yield {"rules": [list(r) for r in chain_rules(1100)], "seed": 3, "scale": "chain"}
    for i in range(cfg["random"]):
        rules = [rand_rules, layered_rules, detour_rules, alternatives_rules, detour_rules, dup_variants_rules][i % 6](rng)
        yield {"rules": [list(r) for r in rules], "seed": rng.randrange(1 << 30)}
    for _ in range(cfg["products"]):
        fa = gfa.random_case(rng, max_states=2, max_syms=2, kinds=("dfa", "enfa"), vcs=["int", "str"])
        rules = [list(r) for r in rand_rules(rng, max_n=3)][:5]
        dups = [r for r in rules if r[0] == "dup"]
        for r in dups[1:]:
            rules.remove(r)              # the library's marking is exponential in duplication rules on products
        yield {"rules": rules, "seed": rng.randrange(1 << 30), "fa": fa}
    for _ in range(2):
        # Sigma* as the regular language, from a fresh interpreter (import-state independence)
        yield {"rules": [list(r) for r in rand_rules(rng, max_n=3)][:4], "seed": rng.randrange(1 << 30), "fresh": True}
    for _ in range(cfg.get("word_products", 0)):
        # grammars generating one short word (through duplications, optionally below a pushed-and-popped index),
        # intersected with small eps-NFAs with self loops and epsilon moves: cheap products, exact expectation
        word = [rng.choice("ab") for _ in range(rng.choice([1, 1, 2, 2, 3]))]
        rules = []
        nts = ["W%d" % i for i in range(len(word))]
        for x, a in zip(nts, word):
            rules.append(("end", x, a))
        top = nts[0]
        eps_at = rng.choice([None, None, None, 0, 0, 1]) if len(word) > 1 else rng.choice([None, None, 0])
        for i, x in enumerate(nts[1:]):
            new_top = "J%d" % i
            if eps_at == i:
                # the empty word derived in the MIDDLE of the word (or before its first letter)
                rules.append(("dup", "M%d" % i, "E", x) if rng.random() < 0.5 else ("dup", "M%d" % i, x, "E"))
                x = "M%d" % i
            rules.append(("dup", new_top, top, x))
            top = new_top
        r_ = rng.random()
        if r_ < 0.3:
            rules.append(("prod", "S", "P", "f"))
            rules.append(("cons", "f", "P", top))
            if eps_at is not None and len(word) == 1:
                rules[-1] = ("cons", "f", "P", "T0")
                rules.append(("dup", "T0", "E", top))
        elif r_ < 0.7:
            rules.append(("dup", "S", top, "E"))
        else:
            rules.append(("dup", "S", "E", top))          # ... before the first letter
        if any("E" in r[2:] for r in rules):
            rules.append(("end", "E", "epsilon"))
        fa = gfa.random_case(rng, max_states=3, max_syms=2, kinds=("enfa",), vcs=["int", "str"])
        fa["trans"] = fa["trans"][:5]
        if rng.random() < 0.4:
            # the automaton reads the word along a path of states of its own, and several of these states are ALSO
            # left through an epsilon move to another state (the run has to stay there while the empty word is derived)
            n_ = len(word) + 1 + rng.randrange(2)
            tr = [[i, "ab".index(a), i + 1] for i, a in enumerate(word)]
            if word and rng.random() < 0.2:
                tr[rng.randrange(len(tr))][1] ^= 1           # ... or it reads another word
            for i in range(n_):
                if rng.random() < 0.6 and n_ > 1:
                    tr.append([i, -1, rng.choice([x for x in range(n_) if x != i])])
            fa = dict(fa, n=n_, k=2, start=[0], final=[len(word)], trans=tr)
        elif rng.random() < 0.3 and fa["n"] >= 2:
            # a start (or final) state that is also left through an epsilon move to ANOTHER state
            pool_ = (fa.get("start") or [0]) if rng.random() < 0.5 else (fa.get("final") or [0])
            s0 = rng.choice(pool_)
            fa["trans"].append([s0, -1, rng.choice([x for x in range(fa["n"]) if x != s0])])
            fa["trans"].append([s0, rng.randrange(2), rng.randrange(fa["n"])])
            fa["trans"] = [list(t) for t in {tuple(t) for t in fa["trans"]}]
        elif rng.random() < 0.6 and fa["n"]:
            s0 = rng.randrange(fa["n"])
            fa["trans"].append([s0, rng.randrange(2), s0])          # a symbol read on a self loop
            fa["trans"].append([s0, -1, rng.randrange(fa["n"])])    # ... left through an epsilon move
            fa["trans"] = [list(t) for t in {tuple(t) for t in fa["trans"]}]
        cc = {"rules": [list(r) for r in rules], "seed": rng.randrange(1 << 30), "fa": fa, "word": word}
        if rng.random() < 0.5:
            cc["fa2"] = gfa.random_case(rng, max_states=2, max_syms=2, kinds=("dfa",), vcs=["int", "str"])
        yield cc
    if cfg.get("exhaustive"):
        tot = 0
        for i, rules in enumerate(small_exhaustive()):
            tot += 1
            if i % nslices == sl:
                yield {"rules": [list(r) for r in rules], "seed": i, "exh": 1}
        stats.extra["exhaustive_complete"] = True
        stats.extra["exhaustive_scopes"] = "all %d rule sets over non-terminals {S,A}, one index, <=3 rules (x all permutations x optim 0..8)" % tot


FRESH = """
import sys
from pyformlang.indexed_grammar import (Rules, ConsumptionRule, EndRule, ProductionRule, DuplicationRule, IndexedGrammar)
from pyformlang.finite_automaton import DeterministicFiniteAutomaton
rules = %r
L = []
for r in rules:
    if r[0] == "end": L.append(EndRule(r[1], r[2]))
    elif r[0] == "prod": L.append(ProductionRule(r[1], r[2], r[3]))
    elif r[0] == "cons": L.append(ConsumptionRule(r[1], r[2], r[3]))
    else: L.append(DuplicationRule(r[1], r[2], r[3]))
d = DeterministicFiniteAutomaton()
d.add_transition(0, "a", 0); d.add_transition(0, "b", 0); d.add_start_state(0); d.add_final_state(0)
try:
    print("RESULT", IndexedGrammar(Rules(L)).intersection(d).is_empty())
except Exception as e:
    print("EXC", type(e).__name__)
"""


def run_fresh(c, stats):
    """the same call from a fresh interpreter that imported nothing but what the caller needs"""
    import os
    import subprocess
    import sys
    import pyformlang
    rules = [tuple(r) for r in c["rules"]]
    repo = os.path.dirname(os.path.dirname(os.path.abspath(pyformlang.__file__)))
    with core.oracle_mode():
        try:
            ne = oracle(rules, "S")
        except core.OracleGaveUp:
            return False
    env = dict(os.environ, PYTHONPATH=repo)
    out = subprocess.run([sys.executable, "-B", "-c", FRESH % (rules,)], capture_output=True, text=True, env=env,
                         timeout=120).stdout
    core.LOG.count("C17.fresh_interpreter_calls")
    with core.oracle_mode():
        if "EXC" in out or "RESULT" not in out:
            core.report(PROP, "intersection", "exception:" + (out.split()[-1] if out.split() else "none"),
                        {"where": "fresh interpreter"}, ["fresh_interpreter"])
        elif ("True" in out) != (not ne):
            core.report(PROP, "intersection", "wrong-empty" if "True" in out else "wrong-nonempty",
                        {"where": "fresh interpreter"}, ["fresh_interpreter"])
    return True


def run_scale(c, stats):
    rules = [tuple(r) for r in c["rules"]]
    stats.cls("scale:" + c["scale"])
    rng = random.Random(c["seed"])
    for optim in ((7,) if c["scale"] == "chain" else (0, 7, 4)):
        for shuffled in ((False,) if c["scale"] == "chain" else (False, True)):
            lr = list(rules)
            if shuffled:
                rng.shuffle(lr)
            random.seed(c["seed"])
            ok, g = call(tolib, lr, optim)
            if not ok:
                continue
            ok, v = call(g.is_empty)
            core.LOG.count("C17.scale_verdicts")
            if ok and bool(v):
                # both families generate a word by construction
                with core.oracle_mode():
                    core.report(PROP, "is_empty", "wrong-empty-for-listed-rules", {"optim": optim}, ["scale:" + c["scale"]])
            if c["scale"] == "counters" or (optim == 7 and not shuffled):
                ok, u = call(g.remove_useless_rules)
                if ok:
                    ok, v2 = call(u.is_empty)
                    if ok and bool(v2):
                        with core.oracle_mode():
                            core.report(PROP, "remove_useless_rules", "verdict-changed", {"optim": optim},
                                        ["scale:" + c["scale"]])
    return True


def run_case(c, stats):
    if c.get("scale"):
        return run_scale(c, stats)
    if c.get("fresh"):
        return run_fresh(c, stats)
    rules = [tuple(r) for r in c["rules"]]
    rng = random.Random(c["seed"])
    with core.oracle_mode():
        try:
            ne = oracle(rules, "S")
        except core.OracleGaveUp:
            core.LOG.discard("oracle_gave_up")
            return False
        # oracle cross-checks (a disagreement between reference routes is a monitor bug, not a verdict)
        try:
            if ri.nonempty_allsubsets(rules, "S") != ne:
                raise AssertionError("antichain and all-subsets fixpoints disagree")
        except ri.GaveUp:
            pass
        if ri.brute_words(rules, "S") and not ne:
            raise AssertionError("brute force found a word but the fixpoint says empty")
        core.LOG.count("C17.oracle_crosschecks")
        stats.cls("nonempty" if ne else "empty")
        for t in tags_rules(rules):
            stats.cls("tag:" + t)
    if "fa" in c:
        from pyformlang.regular_expression import Regex
        fa = gfa.build(c["fa"])
        if "word" in c:
            with core.oracle_mode():
                # oracle cross-check: the product is non-empty iff the automaton accepts the single word
                acc = extract.fa(fa).accepts(c["word"])
                dfa = rn.determinize(extract.fa(fa))
                if len(dfa.states) <= 3:
                    pr, ps = ri.product(rules, dfa, "S")
                    try:
                        if ri.nonempty(pr, ps, limit=300000) != acc:
                            raise AssertionError("reference product disagrees with direct acceptance of the word")
                        core.LOG.count("C17.oracle_crosschecks")
                    except ri.GaveUp:
                        pass
        for optim in (7, rng.randrange(9)):
            random.seed(c["seed"])
            ok, g = call(tolib, rules, optim)
            if not ok:
                continue
            ok, prod = call(g.intersection, fa)
            if ok:
                call(prod.is_empty)
                if "word" in c and "fa2" in c and optim == 7:
                    # the product is an indexed grammar like any other: intersected with a second language
                    fa2 = gfa.build(c["fa2"])
                    ok, prod2 = call(prod.intersection, fa2)
                    if ok:
                        with core.oracle_mode():
                            EXPECT[prod2] = not (extract.fa(fa).accepts(c["word"]) and extract.fa(fa2).accepts(c["word"]))
                        call(prod2.is_empty)
            ok, prod = call(lambda: g & Regex("a*"))             # operator form
            if ok:
                call(lambda: bool(prod))
        return len(rules) >= 3
    if len(rules) <= 5:
        perms = list(itertools.permutations(rules))
    else:
        perms = [tuple(rules)] + [tuple(rng.sample(rules, len(rules))) for _ in range(40)]
    verdicts = set()
    for pi, perm in enumerate(perms):
        # every ordering heuristic on the listed order and on 3 more permutations; the other permutations are run
        # with optim 0 and one more heuristic (a heuristic only reorders the list, the permutations already do that)
        optims = range(9) if pi < 4 else (0, 1 + (pi % 8))
        for optim in optims:
            random.seed(c["seed"])          # optim 8 shuffles with the global random module
            ok, g = call(tolib, list(perm), optim)
            if not ok:
                continue
            ok, v = call(g.is_empty)
            if ok:
                verdicts.add(bool(v))
                if bool(v) != (not ne):
                    # judged against the rules as LISTED by the caller (the contract on is_empty reads the rules back
                    # from the library object, which misses a rule lost at construction)
                    with core.oracle_mode():
                        core.report(PROP, "is_empty", "wrong-empty-for-listed-rules" if v else
                                    "wrong-nonempty-for-listed-rules", {"optim": optim}, tags_rules(rules))
    with core.oracle_mode():
        core.LOG.count("C17.order_independence")
        if len(verdicts) > 1:
            core.report(PROP, "order_independence", "verdict-depends-on-order-or-optim", None, tags_rules(rules))
    global FORM
    for form in ("iter", "gen", "tuple"):
        # the documented "iterable of rules" in its other forms
        FORM = form
        try:
            ok, g = call(tolib, list(rules), 7 if form != "gen" else 0)
        finally:
            FORM = None
        if ok:
            ok, v = call(g.is_empty)
            if ok and bool(v) != (not ne):
                with core.oracle_mode():
                    core.report(PROP, "is_empty", "wrong-empty-for-listed-rules" if v else
                                "wrong-nonempty-for-listed-rules", {"form": form}, tags_rules(rules) + ["form:" + form])
    for optim in (0, 1, 8, 7):
        # clean-up asked FIRST of a fresh grammar (nothing has run the marking yet), for the orderings that do not
        # touch the consumption table themselves
        random.seed(c["seed"])
        ok, g = call(tolib, list(rules), optim)
        if ok:
            ok, u = call(g.remove_useless_rules)
            if ok:
                call(u.is_empty)
    for j, perm in enumerate([tuple(rules)] + [tuple(rng.sample(rules, len(rules))) for _ in range(3)]):
        ok, g = call(tolib, list(perm), 7 if j == 0 else rng.randrange(9))
        if ok:
            call(g.is_empty)
            call(g.is_empty)                    # repeated on the same object (marked state kept)
            if j == 1:
                # the rule set is edited through its public mutators after the grammar was queried, and queried again
                # (only growth, over non-terminals the grammar already has: the marking is monotone and nothing in
                # the library claims to support removals from a live grammar)
                nts = sorted({t for r in rules for t in ((r[1],) if r[0] == "end" else r[1:3] if r[0] == "prod"
                                                           else r[2:4] if r[0] == "cons" else r[1:4])})
                if nts:
                    x, y, f = rng.choice(nts), rng.choice(nts), rng.choice("fg")
                    ok_e, _ = call(g.rules.add_production, x, y, f)
                    if ok_e:
                        core.LOG.count("C17.edited_rules")
                        call(g.is_empty)
            ok, u = call(g.remove_useless_rules)
            if ok:
                call(u.is_empty)
            call(lambda: bool(g))
    return len(rules) >= 3 and any(r[0] in ("prod", "dup") for r in rules)
