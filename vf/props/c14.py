"""C14 - LL(1): FIRST / FOLLOW, the LL(1) verdict and the table-driven parser."""
import weakref

from vf import core, values
from vf.gen import cfg as gcfg
from vf.ref import ll1 as rl
from vf.props.cfgcommon import ref_of, word_values
from vf.props.trees import validate_tree
from vf.worker import call

PROP = "C14"
N = 4
RULE = ("grammars without useless symbols (filtered reference-side): nullable variables, nullable non-empty bodies, "
        "epsilon productions, common prefixes, FIRST/FOLLOW conflicts, left recursion; random (<=3 variables, <=2-3 "
        "terminals, <=6 productions) and every grammar with 2 variables, 2 terminals, <=3 productions of bodies <=2 "
        "(thorough); get_first_set / get_follow_set compared per variable with the textbook fixpoints, "
        "is_llone_parsable with the PREDICT-disjointness verdict; on reference-LL(1) grammars get_llone_parse_tree(w) "
        "must return a valid tree iff w is in the bounded language (all words <=%d, plus prefixes and one-symbol "
        "extensions of members) and raise NotParsableException otherwise. Non-trivial: >=2 productions and a "
        "non-empty language; distinct = case hash." % N +
        ' Later additions: components nullable only through unit chains, inputs ending while such variables remain, a nullable component shared through a unit production.')
ASSUMPTIONS = ["extra keys for terminals in FOLLOW are not judged", "only grammars without useless symbols are judged"]
TIERS = {
    "quick": {"workers": 4, "random": 2500},
    "thorough": {"workers": 16, "random": 30000, "pytest": True, "exhaustive": True, "hard_timeout": 3000},
}
MIN = {"quick": {"C14.LLOneParser.get_first_set": 1000, "C14.LLOneParser.get_follow_set": 1000,
                 "C14.LLOneParser.is_llone_parsable": 1000, "C14.LLOneParser.get_llone_parse_tree": 5000},
       "thorough": {"C14.LLOneParser.get_llone_parse_tree": 100000}}
SHADOW = weakref.WeakKeyDictionary()


def anchors():
    from pyformlang.cfg.llone_parser import LLOneParser as P
    return [P.get_first_set, P._get_first_set_production, P.get_follow_set, P._initialize_follow_set,
            P.get_llone_parsing_table, P.get_llone_parse_tree]


def useless_free(ref):
    if ref.start is None:
        return False
    gen = ref.generating()
    reach = ref.reachable()
    if any(v not in gen or ("V", v) not in reach for v in ref.variables):
        return False
    return all(("T", t) in reach for t in ref.terminals)


def tags_of(ref):
    t = []
    nul = ref.nullable()
    if any(b and all(x[0] == "V" and x[1] in nul for x in b) for _, b in ref.prods):
        t.append("nullable_nonempty_body")
    return t


def post_init(st, self, args, kwargs, result, exc):
    if exc is None and args:
        ref = ref_of(args[0])
        if useless_free(ref):
            SHADOW[self] = (ref, rl.analyse(ref))
        else:
            core.LOG.discard("grammar_with_useless_symbols")


def pre(self, args, kwargs):
    return SHADOW.get(self)


def conv_set(s):
    from pyformlang.cfg import Terminal, Epsilon
    out = set()
    for x in s:
        if isinstance(x, Epsilon):
            out.add(rl.EPS)
        elif isinstance(x, Terminal):
            out.add(x.value)
        elif isinstance(x, str) and x == "$":
            out.add(rl.END)     # the library's end marker is the bare text "$" (a Terminal called "$" is a symbol)
        else:
            out.add(x)
    return out


def post_first(sh, self, args, kwargs, result, exc):
    from pyformlang.cfg import Variable, Terminal
    if sh is None:
        return
    ref, (first, follow, ll1, predict) = sh
    tags = tags_of(ref)
    if exc is not None:
        core.report(PROP, "first", "exception:" + type(exc).__name__, None, tags)
        return
    for v in ref.variables:
        got = conv_set(result.get(Variable(v), set()))
        if got != first[v]:
            core.report(PROP, "first", "missing-element" if first[v] - got else "extra-element",
                        {"variable": repr(v), "got": sorted(map(repr, got)), "expected": sorted(map(repr, first[v]))}, tags)
            return
    for t in ref.terminals:
        got = conv_set(result.get(Terminal(t), set()))
        if got != {t}:
            core.report(PROP, "first", "terminal-first-wrong", {"terminal": repr(t)}, tags)
            return


def post_follow(sh, self, args, kwargs, result, exc):
    from pyformlang.cfg import Variable
    if sh is None:
        return
    ref, (first, follow, ll1, predict) = sh
    tags = tags_of(ref)
    if exc is not None:
        core.report(PROP, "follow", "exception:" + type(exc).__name__, None, tags)
        return
    for v in ref.variables:
        got = conv_set(result.get(Variable(v), set()))
        if got != follow[v]:
            core.report(PROP, "follow", "missing-element" if follow[v] - got else "extra-element",
                        {"variable": repr(v), "got": sorted(map(repr, got)), "expected": sorted(map(repr, follow[v]))}, tags)
            return


def post_verdict(sh, self, args, kwargs, result, exc):
    if sh is None:
        return
    ref, (first, follow, ll1, predict) = sh
    tags = tags_of(ref)
    if exc is not None:
        core.report(PROP, "is_llone_parsable", "exception:" + type(exc).__name__, None, tags)
    elif bool(result) != ll1:
        core.report(PROP, "is_llone_parsable", "wrong-true" if result else "wrong-false", None, tags)


def post_tree(sh, self, args, kwargs, result, exc):
    from pyformlang.cfg.cfg import NotParsableException
    if sh is None:
        return
    ref, (first, follow, ll1, predict) = sh
    if not ll1:
        core.LOG.discard("parse_on_non_LL1_grammar")
        return
    w = word_values(args[0])
    if w is None:
        return
    tags = tags_of(ref)
    member = w in ref.words(len(w))
    if member:
        tags = tags + (["word_is_member"])
    if exc is not None:
        if isinstance(exc, NotParsableException):
            if member:
                core.report(PROP, "parse", "member-refused", {"word": list(w)}, tags)
        else:
            core.report(PROP, "parse", "exception:" + type(exc).__name__, {"word": list(w), "member": member}, tags)
        return
    if not member:
        core.report(PROP, "parse", "non-member-parsed", {"word": list(w)}, tags)
        return
    err = validate_tree(result, ref, w)
    if err:
        core.report(PROP, "parse", "tree:" + err, {"word": list(w)}, tags)


def install():
    from pyformlang.cfg.llone_parser import LLOneParser as P
    m = core.monitored
    m(P, "__init__", PROP, None, post_init)
    m(P, "get_first_set", PROP, pre, post_first)
    m(P, "get_follow_set", PROP, pre, post_follow)
    m(P, "is_llone_parsable", PROP, pre, post_verdict)
    m(P, "get_llone_parse_tree", PROP, pre, post_tree)


def ll1_biased(rng):
    """grammars that are LL(1) more often: every production of a variable starts with a distinct terminal,
    plus optional epsilon / nullable-body productions"""
    nv = rng.randint(1, 3)
    nt = rng.randint(2, 3)
    prods = []
    for h in range(nv):
        firsts = list(range(nt))
        rng.shuffle(firsts)
        for t in firsts[:rng.randint(1, 2)]:
            body = [["T", t]] + [["V", rng.randrange(nv)] if rng.random() < 0.5 else ["T", rng.randrange(nt)]
                                 for _ in range(rng.randint(0, 2))]
            prods.append([h, body])
        r = rng.random()
        if r < 0.3:
            prods.append([h, []])
        elif r < 0.5 and nv > 1:
            prods.append([h, [["V", rng.randrange(nv)] for _ in range(rng.randint(1, 2))]])   # maybe nullable body
    return {"nv": nv, "nt": nt, "start": 0, "prods": prods, "vc": rng.choice(["str", "str", "str", "dollar"])}


def nullable_body_case(rng):
    """S -> A t ; A -> B C (D) ; B -> b | eps ; C -> c | eps ...: nullable bodies of several components whose FIRST
    sets are pairwise different, optionally a competing production that creates a FIRST/FIRST or FIRST/FOLLOW
    conflict on a later component"""
    k = rng.randint(2, 3)
    nv = 2 + k
    nt = k + 2
    prods = [[0, [["V", 1], ["T", 0]]], [1, [["V", 2 + i] for i in range(k)]]]
    for i in range(k):
        prods.append([2 + i, [["T", 1 + i]]])
        if rng.random() < 0.85:
            prods.append([2 + i, []])
    if rng.random() < 0.45:
        # indirect nullability: a component is nullable only through a chain of unit productions
        i = rng.randrange(k)
        v = 2 + i
        if [v, []] in prods:
            prods.remove([v, []])
            chain = rng.randint(1, 2)
            cur = v
            for j in range(chain):
                nxt = nv
                nv += 1
                prods.append([cur, [["V", nxt]]])
                cur = nxt
            prods.append([cur, []])
            if rng.random() < 0.5:
                prods.append([cur, [["T", nt - 1]]])
    if rng.random() < 0.35:
        # a component is also reached through a nullable unit production of another variable used later in S:
        # S -> A t U t' ; U -> B_i   (FIRST of one symbol serves two productions)
        u = nv
        nv += 1
        prods.append([u, [["V", 2 + rng.randrange(k)]]])
        prods[0] = [0, prods[0][1] + [["V", u], ["T", nt - 1]]]
        if rng.random() < 0.4:
            prods[0] = [0, [["V", 2 + rng.randrange(k)]] + prods[0][1][1:]]      # ... and S starts with a component
    if rng.random() < 0.3:
        # left recursion behind / through nullable variables: A -> A t,  or a component that recurses on itself
        v = rng.choice([1] + [2 + i for i in range(k)])
        prods.append([v, [["V", v], ["T", nt - 1]]])
    if rng.random() < 0.25:
        prods.append([1, [["V", 2], ["T", 0], ["V", 2]]])                    # the same symbol twice in one body
    r = rng.random()
    if r < 0.3:
        prods.append([1, [["T", rng.randint(1, k)], ["T", nt - 1]]])      # conflict on some component's first
    elif r < 0.45:
        prods.append([1, [["T", 0]]])                                       # FIRST/FOLLOW conflict
    elif r < 0.6:
        prods.append([0, [["T", rng.randint(1, k)]]])
    return {"nv": nv, "nt": nt, "start": 0, "prods": prods, "vc": "str"}


def nullable_tail_case(rng):
    """S -> t A (B) ; A -> A1 ; A1 -> A2 ; A2 -> eps | u : the input ends while variables that vanish only through a
    chain of unit productions are still to be expanded"""
    k = rng.randint(1, 2)
    prods = []
    nv = 1 + k
    nt = 1 + k
    head = [["T", 0]] if rng.random() < 0.7 else []
    prods.append([0, head + [["V", 1 + i] for i in range(k)]])
    for i in range(k):
        cur = 1 + i
        for j in range(rng.randint(0, 3)):
            prods.append([cur, [["V", nv]]])
            cur = nv
            nv += 1
        prods.append([cur, []])
        if rng.random() < 0.7:
            prods.append([cur, [["T", 1 + i]]])
    if rng.random() < 0.2:
        prods.append([0, [["T", nt - 1], ["V", 0]]])
    return {"nv": nv, "nt": nt, "start": 0, "prods": prods, "vc": rng.choice(["str", "lower"])}


def plan(tier, rng, sl, nslices, stats):
    cfg = TIERS[tier]
    if sl == 0:
        yield {"scale": "dispatcher", "n": 40, "nv": 81, "prods": []}
        yield {"scale": "long_word", "n": 1500, "nv": 1, "prods": []}
    for i in range(cfg["random"]):
        if i % 10 == 9:
            yield nullable_tail_case(rng)
        elif i % 5 == 4:
            yield nullable_body_case(rng)
        elif i % 2:
            yield ll1_biased(rng)
        else:
            yield gcfg.random_case(rng, max_vars=3, max_terms=rng.choice([2, 3]), max_prods=6, max_body=3, vcs=["str", "lower", "dollar"])
    if cfg.get("exhaustive"):
        tot = 0
        for i, c in enumerate(gcfg.exhaustive_cases(3)):
            tot += 1
            if i % nslices == sl:
                yield c
        stats.extra["exhaustive_complete"] = True
        stats.extra["exhaustive_scopes"] = "all %d grammars with 2 variables, 2 terminals, <=3 productions of body length <=2" % tot


def run_scale(c, stats):
    """(a) a dispatcher grammar with forty statements (81 variables, 80 terminals): FIRST / FOLLOW / verdict / every
    member and its proper prefix; (b) a word of 1500 tokens for a right-recursive grammar"""
    from pyformlang.cfg import CFG, Production, Variable, Terminal
    from pyformlang.cfg.llone_parser import LLOneParser
    stats.cls("scale:" + c["scale"])
    if c["scale"] == "dispatcher":
        n = c["n"]
        prods = set()
        for i in range(n):
            prods.add(Production(Variable("S"), [Variable("K%d" % i)]))
            prods.add(Production(Variable("K%d" % i), [Terminal("kw%d" % i), Variable("E%d" % i)]))
            prods.add(Production(Variable("E%d" % i), [Terminal("end%d" % i)]))
        g = CFG(start_symbol=Variable("S"), productions=prods)
        ok, p = call(LLOneParser, g)
        if not ok:
            return False
        call(p.get_first_set)
        call(p.get_follow_set)
        call(p.is_llone_parsable)
        for i in range(n):
            call(p.get_llone_parse_tree, ["kw%d" % i, "end%d" % i])
            call(p.get_llone_parse_tree, ["kw%d" % i])
        return True
    g = CFG.from_text("S -> a S | b")
    ok, p = call(LLOneParser, g)
    if ok:
        call(p.get_llone_parse_tree, ["a"] * c["n"] + ["b"])
        call(p.get_llone_parse_tree, ["a"] * c["n"])
    return True


def run_case(c, stats):
    if c.get("scale"):
        return run_scale(c, stats)
    from pyformlang.cfg.llone_parser import LLOneParser
    g = gcfg.build(c)
    with core.oracle_mode():
        ref = ref_of(g)
        if not useless_free(ref):
            core.LOG.discard("grammar_with_useless_symbols")
            stats.cls("discarded_useless")
            return False
        first, follow, ll1, predict = rl.analyse(ref)
        stats.cls("LL1" if ll1 else "not_LL1")
        for t in tags_of(ref):
            stats.cls("tag:" + t)
        L = ref.words(N)
    kk = c["nv"] + len(c["prods"])
    if kk % 3 == 0:
        call(g.is_empty)                      # the grammar's own analyses run before the parser reads them
    elif kk % 3 == 1:
        call(g.get_generating_symbols)
        call(g.get_reachable_symbols)
    ok, p = call(LLOneParser, g)
    if not ok:
        return False
    call(p.get_first_set)
    call(p.get_follow_set)
    call(p.is_llone_parsable)
    if ll1:
        terms = sorted(ref.terminals)
        words = set(gcfg.words_over(terms, N if len(terms) <= 2 else 3, foreign=False))
        for w in list(L):
            for t in terms:
                words.add(w + (t,))
            words.add(w[:-1])
        words.add(("zz_foreign",))
        nforms = 0
        for w in sorted(words, key=lambda x: (len(x), x)):
            call(p.get_llone_parse_tree, values.word_form(w, len(w) + nforms))
            nforms += 1
    # the same productions under another start symbol (FOLLOW and the table depend on it), in the same process
    from pyformlang.cfg import CFG, Variable
    for v in sorted(ref.variables - {ref.start}, key=repr)[:2]:
        g2 = CFG(start_symbol=Variable(v), productions=set(g.productions))
        with core.oracle_mode():
            ref2 = ref_of(g2)
            if not useless_free(ref2):
                core.LOG.discard("restarted_grammar_with_useless_symbols")
                continue
            _, _, ll1_2, _ = rl.analyse(ref2)
            L2 = ref2.words(3)
        stats.cls("restarted")
        ok, p2 = call(LLOneParser, g2)
        if ok:
            call(p2.get_follow_set)
            call(p2.get_first_set)
            call(p2.is_llone_parsable)
            if ll1_2:
                for w in [()] + sorted(L2, key=lambda x: (len(x), repr(x)))[:6]:
                    call(p2.get_llone_parse_tree, list(w))
                    call(p2.get_llone_parse_tree, list(w) + sorted(ref2.terminals, key=repr)[:1])
    return len(ref.prods) >= 2 and bool(L)
