"""C08 - CFG membership is derivability from the start symbol."""
from vf import values
from vf import core, extract
from vf.gen import cfg as gcfg
from vf.props.cfgcommon import ref_of, tags_of, word_values
from vf.worker import call

PROP = "C08"
RULE = ("random grammars (<=4 variables, <=2-3 terminals, <=7 productions, bodies <=4; epsilon, unit, self-, left- and "
        "right-recursive productions, non-generating/unreachable symbols, start without productions or None; value "
        "classes: strings, ints, variable/terminal value clash, reserved #CNF#/#SUBS# names), shuffled construction "
        "order; contains / `in` / generate_epsilon compared with the reference bounded language (least fixpoint) on ALL "
        "words of length <=4 (<=5 for one terminal) over the terminals plus one unknown symbol, each grammar queried fresh and after other "
        "queries. Non-trivial: the language restricted to the bound is neither empty nor everything; distinct = case hash."
        " Later additions: print-alike (0/'0'), fresh-name (#STARTCLOS#) and blank-containing terminal classes; words as tuples, one-shot iterables, Terminal objects; the grammar is also compared with the case record given to the constructor; a third of the two-terminal grammars on all words <=5, another third on members of length up to bound+3 and their neighbours; an eighth of the grammars are dense (binary bodies over two or three variables deriving overlapping words).")
ASSUMPTIONS = ["membership is compared for all words up to the bound only"]
TIERS = {
    "quick": {"workers": 4, "random": 3000},
    "thorough": {"workers": 16, "random": 25000, "pytest": True, "exhaustive": True, "hard_timeout": 3000},
}
MIN = {"quick": {"C08.CFG.contains": 20000, "C08.CFG.generate_epsilon": 1000, "C08.CFG.__contains__": 1000},
       "thorough": {"C08.CFG.contains": 500000}}


def anchors():
    from pyformlang.cfg import CFG
    from pyformlang.cfg.cyk_table import CYKTable
    return [CFG.contains, CFG.generate_epsilon, CYKTable._propagate_in_cyk_table, CFG.to_normal_form]


def pre(self, args, kwargs):
    return ref_of(self)


def post_contains(ref, self, args, kwargs, result, exc):
    w = word_values(args[0])
    if w is None:
        return
    tags = tags_of(ref)
    if exc is not None:
        core.report(PROP, "contains", "exception:" + type(exc).__name__, {"word": list(w)}, tags)
        return
    try:
        exp = w in ref.words(len(w))
    except TypeError:
        return
    if bool(result) != exp:
        core.report(PROP, "contains", "wrong-accept" if result else "wrong-reject", {"word": list(w)}, tags)


def post_eps(ref, self, args, kwargs, result, exc):
    tags = tags_of(ref)
    if exc is not None:
        core.report(PROP, "generate_epsilon", "exception:" + type(exc).__name__, None, tags)
    elif bool(result) != (() in ref.words(0)):
        core.report(PROP, "generate_epsilon", "wrong-true" if result else "wrong-false", None, tags)


def install():
    from pyformlang.cfg import CFG
    core.monitored(CFG, "contains", PROP, pre, post_contains)
    core.monitored(CFG, "__contains__", PROP, pre, post_contains)
    core.monitored(CFG, "generate_epsilon", PROP, pre, post_eps)


def plan(tier, rng, sl, nslices, stats):
    cfg = TIERS[tier]
    if sl == 0:
        # scale cases (one worker): forty variables, a chain of 1200 variables, a body of a dozen symbols
        for c in (gcfg.wide_case(rng), gcfg.long_chain_case(1200), gcfg.long_body_case(rng), gcfg.long_body_case(rng)):
            c["prefix"] = 0
            yield c
    for i in range(cfg["random"]):
        if i % 40 == 39:
            c = gcfg.large_case(rng)
            c["prefix"] = rng.randrange(4)
            yield c
            continue
        c = gcfg.dense_case(rng) if i % 8 == 5 else gcfg.random_case(rng, max_terms=rng.choice([1, 2, 2, 3]))
        c["prefix"] = rng.randrange(4)
        yield c
    if cfg.get("exhaustive"):
        tot = 0
        for i, c in enumerate(gcfg.exhaustive_cases(3)):
            tot += 1
            if i % nslices == sl:
                c["exh"] = 1
                yield c
        stats.extra["exhaustive_complete"] = True
        stats.extra["exhaustive_scopes"] = "all %d grammars with 2 variables, 2 terminals, <=3 productions of body length <=2" % tot


def run_case(c, stats):
    from pyformlang.cfg import Terminal
    g = gcfg.build(c)
    stats.cls("vc:" + c["vc"])
    with core.oracle_mode():
        ref = ref_of(g)
        # the grammar holds the productions and the start symbol that were given to the constructor
        want = gcfg.ref_of_case(c)
        core.LOG.count("C08.construction")
        if (frozenset(ref.prods), ref.start) != (frozenset(want.prods), want.start):
            core.report(PROP, "construct", "grammar-differs-from-what-was-given",
                        {"missing": sorted(map(repr, set(want.prods) - set(ref.prods)))[:3],
                         "extra": sorted(map(repr, set(ref.prods) - set(want.prods)))[:3]}, tags_of(ref))
        for t in tags_of(ref):
            stats.cls("tag:" + t)
        nt = c["nt"]
        N = 5 if nt == 1 else (4 if nt == 2 else 3)
        sel = (c["nv"] + 2 * len(c["prods"]) + sum(len(b) for _, b in c["prods"])) % 3
        if nt == 2 and (sel == 0 or c.get("dense")) and not c.get("long_words"):
            N = 5
        L = ref.words(N)
        longer = []
        if nt >= 2 and (sel == 1 or c.get("dense")) and not c.get("long_words") and len(c["prods"]) <= 8:
            # members two and three symbols beyond the bound, and their neighbours (one symbol changed or dropped)
            L2 = sorted((w for w in ref.words(N + 3) if len(w) > N), key=lambda x: (-len(x), repr(x)))
            for w in L2[:3] + L2[len(L2) // 2:len(L2) // 2 + 3]:
                longer.append(list(w))
                k = (len(w) + c["nv"]) % len(w)
                longer.append(list(w[:k]) + list(w[k + 1:]))
                longer.append(list(w[:k]) + [w[(k + 1) % len(w)]] + list(w[k + 1:]))
    terms = [gcfg.tval(c, j) for j in range(nt)]
    # a random prefix of other queries first: the memo state is part of the case
    pre_q = [g.is_empty, g.get_generating_symbols, g.get_nullable_symbols, g.to_normal_form]
    for i in range(c.get("prefix", 0)):
        call(pre_q[(i + c["nv"]) % len(pre_q)])
    if (c["nv"] + len(c["prods"])) % 5 == 3 and len(c["prods"]) >= 2:
        # a bystander over the same variables and terminals (one production less) is queried first, in the same process
        by = gcfg.build(dict(c, prods=c["prods"][1:]))
        call(by.generate_epsilon)
        for w in list(gcfg.words_over(terms, 2, foreign=False)):
            call(by.contains, list(w))
        stats.cls("bystander_first")
    call(g.generate_epsilon)
    total = 0
    for w in gcfg.words_over(terms, N, foreign=True):
        if w.count("zz_foreign") > 1:
            continue
        total += 1
        call(g.contains, values.word_form(w, total, wrap=Terminal))
    for w in longer:
        call(g.contains, list(w))
    if longer:
        stats.cls("longer_words")
    # the textual epsilon spellings are ordinary unknown symbols when they stand in a word
    for w in sorted(L, key=lambda x: (len(x), repr(x)))[:4]:
        for sp in ("$", "epsilon"):
            call(g.contains, list(w[:1]) + [sp] + list(w[1:]))
    if total % 4 == 1 and c["prods"]:
        # a second grammar built from the SAME Production objects plus an epsilon production (other nullable symbols)
        from pyformlang.cfg import CFG, Production, Variable
        extra = Production(Variable(gcfg.vval(c, c["prods"][0][0])), [])
        ok2, g2 = call(CFG, start_symbol=g.start_symbol, productions=set(g.productions) | {extra})
        if ok2:
            for w in gcfg.words_over(terms, 3, foreign=False):
                call(g2.contains, list(w))
            for w in gcfg.words_over(terms, 2, foreign=False):
                call(g.contains, list(w))          # ... and the first grammar again
    for w in c.get("long_words", ()):
        call(g.contains, [gcfg.tval(c, j) for j in w])          # long members and near-members
    if c.get("longbody"):
        # the normal form (ten or more helper variables) extended by a new long production and normalised again
        from pyformlang.cfg import CFG, Production, Variable, Terminal
        ok3, nf = call(g.to_normal_form)
        if ok3:
            s_ = g.start_symbol
            extra = Production(s_, [Terminal(gcfg.tval(c, 0)), s_, Terminal(gcfg.tval(c, 1)), Terminal(gcfg.tval(c, 2))])
            ok4, g3 = call(CFG, start_symbol=s_, productions=set(nf.productions) | {extra})
            if ok4:
                for w in list(gcfg.words_over(terms, 3, foreign=False)) + [[gcfg.tval(c, j) for j in w] for w in c["long_words"]]:
                    call(g3.contains, list(w))
                for w in c["long_words"][:2]:
                    ww = [gcfg.tval(c, j) for j in w]
                    t0_, t1_, t2_ = (gcfg.tval(c, j) for j in range(3))
                    call(g3.contains, [t0_] + ww + [t1_, t2_])
                    for i in range(1, len(ww)):
                        # the beginning of one production glued to the end of another
                        call(g3.contains, [t0_] + ww[i:])
                        call(g3.contains, [t0_] + ww[i:] + [t1_, t2_])
                        call(g3.contains, ww[:i] + [t1_, t2_])
    call(lambda: [] in g)
    call(lambda: terms[:1] in g)
    call(g.generate_epsilon)
    return 0 < len(L) < sum(len(terms) ** k for k in range(N + 1))
