"""C06 - automaton -> regular expression (state elimination) preserves the language."""
from vf import core, extract
from vf.gen import fa as gfa
from vf.ref import nfa as rn
from vf.worker import call

PROP = "C06"
RULE = ("eps-NFA/NFA/DFA cases over regex-safe token symbols ('a','b','ab','x_1','é','7'), <=5 states, 0-3 start "
        "states, empty start/final sets, start=final, self loops, parallel edges, eps edges, all state value classes "
        "incl. order-injection keys and shuffled construction order; to_regex() judged by exact equivalence of "
        "result.to_epsilon_nfa() with the receiver and by result.accepts on all words <=3. "
        "Non-trivial: >=2 transitions and a non-empty, non-universal language; distinct = canonical case hash."
        " Later additions: sparse automata of eleven to sixteen states, Thompson automata of longer texts, states left by a plain epsilon move on a detour next to a direct transition.")
ASSUMPTIONS = ["symbols are plain tokens (no metacharacter, no blank), as the property's quantifier says"]
TIERS = {
    "quick": {"workers": 8, "random": 1500},
    "thorough": {"workers": 16, "random": 15000, "pytest": True, "exhaustive": True, "hard_timeout": 3000},
}
MIN = {"quick": {"C06.EpsilonNFA.to_regex": 3000}, "thorough": {"C06.EpsilonNFA.to_regex": 50000}}


def anchors():
    from pyformlang.finite_automaton import EpsilonNFA
    from pyformlang.finite_automaton import epsilon_nfa
    return [EpsilonNFA._remove_state, EpsilonNFA._create_or_transitions, EpsilonNFA._get_regex_simple,
            epsilon_nfa.get_regex_sub]


def tags_of(ref):
    t = []
    if len(ref.starts) > 1:
        t.append("multi_start")
    if ref.starts & ref.finals:
        t.append("start_is_final")
    if ref.has_eps():
        t.append("has_epsilon")
    if not all(isinstance(a, str) for a in ref.alpha):
        t.append("non_string_symbol")
    return t


def pre(self, args, kwargs):
    return extract.fa(self)


def post(ref, self, args, kwargs, result, exc):
    tags = tags_of(ref)
    if "non_string_symbol" in tags:
        core.LOG.discard("non_string_symbol")
        return
    if any((not isinstance(a, str)) or any(ch in a for ch in " .|+*()$\\") or a in ("epsilon", "") for a in ref.alpha):
        core.LOG.discard("symbol_not_plain_token")
        return
    if exc is not None:
        core.report(PROP, "to_regex", "exception:" + type(exc).__name__, {"msg": str(exc)[:80]}, tags)
        return
    if extract.fa(self).key() != ref.key():
        core.report(PROP, "to_regex", "operand-mutated", None, tags)
    try:
        enfa = result.to_epsilon_nfa()
        res = extract.fa(enfa)
    except Exception as e:
        core.report(PROP, "to_regex", "result-unusable:" + type(e).__name__, {"regex": str(result)[:200]}, tags)
        return
    w = rn.equiv(ref, res)
    if w is not None:
        core.report(PROP, "to_regex", "wrong-accept" if res.accepts(w) else "wrong-reject",
                    {"word": w, "regex": str(result)[:200]}, tags)
        return
    # second route: the regex's own accepts (catches a wrong cached automaton)
    alpha = sorted(ref.alpha)[:3]
    for wd in rn.all_words(alpha, 3 if len(alpha) <= 2 else 2):
        try:
            got = result.accepts(list(wd))
        except Exception as e:
            core.report(PROP, "to_regex", "accepts-exception:" + type(e).__name__, {"word": list(wd)}, tags)
            return
        if bool(got) != ref.accepts(wd):
            core.report(PROP, "to_regex", "accepts-disagrees", {"word": list(wd), "regex": str(result)[:200]}, tags)
            return


def install():
    from pyformlang.finite_automaton import EpsilonNFA
    core.monitored(EpsilonNFA, "to_regex", PROP, pre, post)


def sparse_large_case(rng):
    """eleven to sixteen states, sparse (a chain with a few chords, loops and epsilon moves, sometimes a trap state and an
    accepting start state): small enough expressions, more states than small-scope generation reaches"""
    n = rng.randint(11, 16)
    k = 2
    trans = [[i, gfa.EPSID if rng.random() < 0.3 else rng.randrange(k), i + 1] for i in range(n - 2)]
    trans.append([n - 2, rng.randrange(k), 0 if rng.random() < 0.5 else rng.randrange(n - 1)])
    for _ in range(rng.randint(0, 3)):
        trans.append([rng.randrange(n - 1), rng.randrange(k), rng.randrange(n - 1)])
    trap = n - 1
    for _ in range(rng.randint(1, 3)):
        trans.append([rng.randrange(n - 1), rng.randrange(k), trap])      # a non-final trap
    trans.append([trap, rng.randrange(k), trap])
    uniq = []
    for t in trans:
        if t not in uniq:
            uniq.append(t)
    finals = sorted({0} if rng.random() < 0.5 else {rng.randrange(n - 1), n - 2})
    c = {"kind": "enfa", "n": n, "k": k, "start": [0], "final": finals, "trans": uniq, "extra": [],
         "vc": rng.choice(["int", "str"]), "token": True, "scale": "sparse_large"}
    if rng.random() < 0.5:
        c["shuffle"] = rng.randrange(1 << 30)
    return c


def detour_case(rng):
    """three to five ordinary states plus one or two states that are left by a plain epsilon move only (no loop), each
    on a detour next to a direct transition between the same two states; now and then the start state's loop and the
    way back from a final state carry the same symbol"""
    n0 = rng.randint(2, 4)
    k = 2
    trans = []
    for _ in range(rng.randint(1, n0 + 1)):
        trans.append([rng.randrange(n0), rng.randrange(k), rng.randrange(n0)])
    n = n0
    for _ in range(rng.choice([1, 1, 2])):
        p_, succ = rng.randrange(n0), rng.randrange(n0)
        q = n
        n += 1
        a = rng.randrange(k)
        trans.append([p_, a, q])
        trans.append([q, gfa.EPSID, succ])
        trans.append([p_, rng.choice([a, 1 - a, 1 - a]), succ])         # the direct way, next to the detour
    finals = sorted({rng.randrange(n0) for _ in range(rng.choice([1, 1, 2]))})
    if rng.random() < 0.4:
        a = rng.randrange(k)
        trans.append([0, a, 0])
        trans.append([finals[0], a, 0])
    uniq = []
    for t in trans:
        if t not in uniq:
            uniq.append(t)
    c = {"kind": "enfa", "n": n, "k": k, "start": [0] if rng.random() < 0.8 else sorted({0, rng.randrange(n0)}),
         "final": finals, "trans": uniq, "extra": [], "vc": rng.choice(["int", "str"]), "token": True}
    if rng.random() < 0.6:
        c["shuffle"] = rng.randrange(1 << 30)
    return c


SCALE_TEXTS = ["(a|b)* a b (a|b)", "(a b|b a)* (a|b) a", "a (b a)* b (a|b)* a", "((a|b) (a|b))* a", "(a* b)* a (b|a a)*"]


def plan(tier, rng, sl, nslices, stats):
    cfg = TIERS[tier]
    for i in range(6):
        yield sparse_large_case(rng)
    if sl == 0:
        for text in SCALE_TEXTS:
            yield {"kind": "enfa", "from_regex": text, "vc": "thompson", "trans": [], "n": 0, "k": 2}
    for _ in range(cfg["random"]):
        r_ = rng.random()
        if r_ < 0.15:
            yield gfa.random_loop_case(rng, vcs=["int", "str", "reservedfa"])
            continue
        if r_ < 0.25:
            yield detour_case(rng)
            continue
        c = gfa.random_case(rng, max_states=rng.choice([2, 3, 4, 5]), token=True)
        if len(c["trans"]) > 9:      # state elimination output grows exponentially with density
            rng.shuffle(c["trans"])
            c["trans"] = sorted(c["trans"][:9])
        yield c
    if cfg.get("exhaustive"):
        for (n, k) in ((1, 1), (1, 2), (2, 1)):
            tot = gfa.exhaustive_count(n, k)
            for idx in range(sl, tot, nslices):
                yield dict(gfa.exhaustive_nth(n, k, idx), token=True)
        stats.extra["exhaustive_complete"] = True
        stats.extra["exhaustive_scopes"] = "all eps-NFA with (1 state,1 sym),(1,2),(2,1)"
        tot = gfa.exhaustive_count(2, 2)
        for _ in range(8000):
            yield dict(gfa.exhaustive_nth(2, 2, rng.randrange(tot)), token=True)


def run_case(c, stats):
    if c.get("from_regex"):
        # the automaton the library itself builds for a medium expression (twenty to thirty states, many epsilon moves)
        from pyformlang.regular_expression import Regex
        fa = Regex(c["from_regex"]).to_epsilon_nfa()
    else:
        fa = gfa.build(c)
    stats.cls("kind:" + c["kind"])
    stats.cls("vc:" + c["vc"])
    with core.oracle_mode():
        ref = extract.fa(fa)
        for t in tags_of(ref):
            stats.cls("tag:" + t)
        nt = len(ref.trans) >= 2 and not ref.is_empty() and not rn.complement(ref).is_empty()
    call(fa.to_regex)
    if c.get("edits"):
        gfa.apply_edits(fa, c)
        stats.cls("edited")
        call(fa.to_regex)
        call(fa.to_regex)
    return nt
