"""C13 - CFG <-> PDA and PDA acceptance-mode conversions preserve the language."""
from vf import core, extract
from vf.gen import cfg as gcfg
from vf.gen import pda as gpda
from vf.ref import pda as rp
from vf.props.cfgcommon import ref_of
from vf.worker import call

PROP = "C13"
N = 4
RULE = ("random nondeterministic PDAs (<=3 states, <=2 stack symbols, <=6 transitions, pushes of 0-3 symbols, epsilon "
        "moves and stack-growing epsilon cycles, no final states, start stack symbol never consumed; reserved names "
        "#STARTTOFINAL#, #BOTTOMEMPTYS#... as states/stack symbols; tuples and ints as values) and random grammars "
        "(incl. variables named #TERM#a, variable/terminal value clash); to_pda, to_cfg, to_final_state, "
        "to_empty_stack and chains of them are judged on every word of length <=%d over the input alphabet plus a "
        "foreign symbol against an exact PDA acceptance oracle (summary fixpoint) and the bounded CFG language. "
        "Non-trivial: the bounded language is non-empty; distinct = case hash." % N +
        " Later additions: one transition pushing three symbols each popped in a state of its own; epsilon moves spelled 'epsilon' / Epsilon() / Symbol('epsilon'); print-alike and equal-hash values; add_transitions; the PDA is also compared with the case record; states on a line whose transitions are given back to front, the stack running empty in the last state only.")
ASSUMPTIONS = ["comparison bounded to words of length <= %d" % N,
               "PDAs have a start state and a start stack symbol"]
TIERS = {
    "quick": {"workers": 6, "random": 500},
    "thorough": {"workers": 16, "random": 8000, "pytest": True, "hard_timeout": 3300},
}
MIN = {"quick": {"C13.CFG.to_pda": 500, "C13.PDA.to_cfg": 500, "C13.PDA.to_final_state": 500,
                 "C13.PDA.to_empty_stack": 500},
       "thorough": {"C13.CFG.to_pda": 10000, "C13.PDA.to_cfg": 10000}}


def anchors():
    from pyformlang.pda import PDA
    from pyformlang.cfg import CFG
    from pyformlang.pda.cfg_variable_converter import CFGVariableConverter as C
    return [CFG.to_pda, PDA.to_cfg, PDA._generate_all_rules, PDA.to_final_state, PDA.to_empty_stack,
            C.set_valid, C.is_valid_and_get]


def words(alpha):
    al = sorted(alpha, key=repr)[:2] + ["zz_foreign"]
    from vf.ref.nfa import all_words
    for w in all_words(al, N if len(al) <= 3 else 3):
        if w.count("zz_foreign") <= 1:
            yield w
    if len(alpha) > 3:
        # large alphabets: every one-letter word and a sample of two-letter words as well
        rest = sorted(alpha, key=repr)
        for a_ in rest:
            yield (a_,)
        for i in range(0, len(rest) - 1, 7):
            yield (rest[i], rest[i + 1])


def pda_tags(r):
    t = []
    vals = [str(x) for x in r.states] + [str(t_[2]) for t_ in r.trans]
    if any(v.startswith("#") for v in vals):
        t.append("reserved_names")
    return t


def cfg_tags(ref):
    t = []
    if any(("#TERM#" + str(x)) in ref.variables for x in ref.terminals):
        t.append("term_stack_name_collision")
    if set(ref.variables) & set(ref.terminals):
        t.append("var_term_clash")
    if len({str(v) for v in ref.variables}) < len(ref.variables):
        t.append("variable_str_collision")
    return t


def pre_cfg(self, args, kwargs):
    return ref_of(self)


def post_to_pda(ref, self, args, kwargs, result, exc):
    tags = cfg_tags(ref)
    if ref.start is None:
        core.LOG.discard("grammar_without_start_symbol")
        return
    if exc is not None:
        core.report(PROP, "to_pda", "exception:" + type(exc).__name__, {"msg": str(exc)[:80]}, tags)
        return
    res = extract.pda(result)
    L = ref.words(N)
    # the automaton reads the terminal VALUES of the grammar (1 is not "1")
    for w in words(set(ref.terminals)):
        got = res.accepts_empty_stack(w)
        if got != (tuple(w) in L):
            core.report(PROP, "to_pda", "wrong-accept" if got else "wrong-reject", {"word": list(w)}, tags)
            return


def pre_pda(self, args, kwargs):
    return extract.pda(self)


def post_to_cfg(ref, self, args, kwargs, result, exc):
    tags = pda_tags(ref)
    if exc is not None:
        core.report(PROP, "to_cfg", "exception:" + type(exc).__name__, {"msg": str(exc)[:80]}, tags)
        return
    g = ref_of(result)
    L = g.words(N)
    for w in words(ref.alpha):
        exp = ref.accepts_empty_stack(w)
        if (tuple(w) in L) != exp:
            core.report(PROP, "to_cfg", "missing-word" if exp else "extra-word", {"word": list(w)}, tags)
            return
    # second route: the library's own membership on the produced grammar
    for w in list(words(ref.alpha))[:20]:
        try:
            got = result.contains(list(w))
        except Exception as e:
            core.report(PROP, "to_cfg", "contains-exception:" + type(e).__name__, {"word": list(w)}, tags)
            return
        if bool(got) != ref.accepts_empty_stack(w):
            core.report(PROP, "to_cfg", "contains-disagrees", {"word": list(w)}, tags)
            return


def make_post_mode(name, src_mode, dst_mode):
    def post(ref, self, args, kwargs, result, exc):
        tags = pda_tags(ref)
        if exc is not None:
            core.report(PROP, name, "exception:" + type(exc).__name__, {"msg": str(exc)[:80]}, tags)
            return
        res = extract.pda(result)
        for w in words(ref.alpha):
            exp = getattr(ref, src_mode)(w)
            got = getattr(res, dst_mode)(w)
            if exp != got:
                core.report(PROP, name, "wrong-accept" if got else "wrong-reject", {"word": list(w)}, tags)
                return
        if extract.pda(self).key() != ref.key():
            core.report(PROP, name, "operand-mutated", None, tags)
    return post


def install():
    from pyformlang.pda import PDA
    from pyformlang.cfg import CFG
    m = core.monitored
    m(CFG, "to_pda", PROP, pre_cfg, post_to_pda)
    m(PDA, "to_cfg", PROP, pre_pda, post_to_cfg)
    m(PDA, "to_final_state", PROP, pre_pda, make_post_mode("to_final_state", "accepts_empty_stack", "accepts_final"))
    m(PDA, "to_empty_stack", PROP, pre_pda, make_post_mode("to_empty_stack", "accepts_final", "accepts_empty_stack"))


def plan(tier, rng, sl, nslices, stats):
    cfg = TIERS[tier]
    for i in range(cfg["random"]):
        if i == 0 and sl == 0:
            # scale cases (one worker): a grammar with 240 symbols, a PDA with 300 stack symbols
            nvar = 120
            yield {"kind": "cfg", "g": {"nv": nvar + 1, "nt": nvar, "start": 0, "vc": "manyterms",
                                        "prods": [[0, [["V", j]]] for j in range(1, nvar + 1)] +
                                                 [[j, [["T", j - 1]]] for j in range(1, nvar + 1)]}}
            yield {"kind": "pda", "p": gpda.many_stack_case(rng), "light": True}
        if i % 40 == 7:
            yield {"kind": "pda", "p": gpda.many_states_case(rng) if i % 80 == 7 else gpda.digit_clash_case(rng),
                   "light": True}
        elif i % 6 == 5:
            yield {"kind": "pda", "p": gpda.push_chain_case(rng)}
        elif i % 12 == 10:
            yield {"kind": "pda", "p": gpda.path_case(rng)}
        elif i % 3 == 0:
            yield {"kind": "cfg", "g": gcfg.random_case(rng, max_vars=3, max_terms=2, max_prods=5, max_body=3)}
        else:
            yield {"kind": "pda", "p": gpda.random_case(rng, max_push=rng.choice([1, 2, 3, 3]),
                                                        vcs=gpda.VCS + ["reservednum"])}


def run_case(c, stats):
    if c["kind"] == "cfg":
        g = gcfg.build(c["g"])
        stats.cls("cfg:" + c["g"]["vc"])
        with core.oracle_mode():
            ref = ref_of(g)
            nt = bool(ref.words(N))
        ok, p = call(g.to_pda)
        if ok:
            call(p.to_final_state)
            ok2, g2 = call(p.to_cfg)          # round trip CFG -> PDA -> CFG
            # the returned automaton belongs to the caller: edited, and the grammar converted again
            sts = sorted(p.states, key=lambda x: repr(x.value))
            zs = sorted(p.stack_symbols, key=lambda x: repr(x.value))
            ins = sorted(p.input_symbols, key=lambda x: repr(x.value))
            if sts and zs and ins:
                for z in zs:
                    call(p.add_transition, sts[0], ins[0], z, sts[0], [])      # every stack symbol may be read away
                call(p.add_final_state, sts[0])
                call(g.to_pda)
            elif sts and zs:
                call(g.to_pda)
        return nt
    p = gpda.build(c["p"])
    stats.cls("pda:" + c["p"]["vc"])
    with core.oracle_mode():
        ref = extract.pda(p)
        want = gpda.ref_of_case(c["p"])
        core.LOG.count("C13.construction")
        if ref.key() != want.key():
            core.report(PROP, "construct", "pda-differs-from-what-was-added",
                        {"got": repr(ref.key())[:200], "want": repr(want.key())[:200]}, ["form:" + str(c["p"].get("form"))])
        nt = any(ref.accepts_empty_stack(w) or ref.accepts_final(w) for w in words(ref.alpha))
    if len(c["p"]["trans"]) % 4 == 2:
        # a bystander PDA with the same state / stack values (one transition less) is converted first
        by = gpda.build(dict(c["p"], trans=c["p"]["trans"][1:]))
        call(by.to_cfg)
        call(by.to_final_state)
        call(by.to_empty_stack)
        stats.cls("bystander_first")
    call(p.to_cfg)
    ok, f = call(p.to_final_state)
    ok2, e = call(p.to_empty_stack)
    if ok:
        call(f.to_empty_stack)               # chains: reserved names already taken once
        call(f.to_final_state)
    if ok2 and len(c["p"]["trans"]) <= 4:
        call(e.to_cfg)
    return nt
