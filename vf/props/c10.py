"""C10 - CFG union / concatenation / closure / reversal / substitution."""
from vf import core, extract
from vf.gen import cfg as gcfg
from vf.ref import cfg as rc
from vf.props.cfgcommon import ref_of, tags_of
from vf.worker import call

PROP = "C10"
N = 5
RULE = ("grammars and ordered pairs of grammars (shared variable names, the same object twice, empty and epsilon-only "
        "languages, start-less grammars, variables already named like the library's fresh symbols X#SUBS#k / "
        "#STARTUNION#, terminals named #0UNION#, non-string variable values); every call of union, concatenate, "
        "get_closure, get_positive_closure, reverse, substitute and | + ~ is compared on all words <=%d with the "
        "reference set operation applied to the operands' bounded languages; operands must be unchanged. "
        "Non-trivial: both operands have a non-empty bounded language; distinct = hash of the pair." % N)
ASSUMPTIONS = ["comparison bounded to words of length <= %d" % N]
TIERS = {
    "quick": {"workers": 4, "random": 1200},
    "thorough": {"workers": 16, "random": 25000, "pytest": True, "hard_timeout": 3000},
}
MIN = {"quick": {"C10.CFG.union": 2000, "C10.CFG.concatenate": 2000, "C10.CFG.get_closure": 1000,
                 "C10.CFG.get_positive_closure": 1000, "C10.CFG.reverse": 1000, "C10.CFG.substitute": 3000},
       "thorough": {"C10.CFG.union": 50000, "C10.CFG.substitute": 100000}}


def anchors():
    from pyformlang.cfg import CFG
    return [CFG.substitute, CFG.union, CFG.concatenate, CFG.get_closure, CFG.get_positive_closure, CFG.reverse]


def is_cfg(x):
    from pyformlang.cfg import CFG
    return isinstance(x, CFG)


def pre1(self, args, kwargs):
    return (ref_of(self),)


def pre2(self, args, kwargs):
    if not args or not is_cfg(args[0]):
        return None
    return ref_of(self), ref_of(args[0])


def pre_subst(self, args, kwargs):
    from pyformlang.cfg import Terminal
    sub = args[0] if args else kwargs.get("substitution")
    if not isinstance(sub, dict):
        return None
    m = {}
    for t, g in sub.items():
        if not is_cfg(g):
            return None
        m[t.value if isinstance(t, Terminal) else t] = ref_of(g)
    return ref_of(self), m


def subs_collision(refs):
    """substitute names new variables value+'#SUBS#'+idx with a global counter: collisions need two operands'
    variables whose renamed names coincide, e.g. 'A#SUBS#1' + idx 0 vs 'A' + idx 10"""
    names = set()
    for r in refs:
        for v in r.variables:
            if isinstance(v, str) and "#SUBS#" in v:
                return True
    return False


def tags_all(refs):
    t = []
    for r in refs:
        for x in tags_of(r):
            if x not in t and x in ("non_string_variable", "no_start"):
                t.append(x)
    if subs_collision(refs):
        t.append("subs_suffix_in_names")
    return t


def compare(name, exp, res, tags, result_obj=None):
    got = set(res.words(N))
    if exp != got:
        miss, extra = exp - got, got - exp
        w = min(miss or extra, key=len)
        core.report(PROP, name, "missing-word" if miss else "extra-word", {"word": list(w)}, tags)
        return
    if result_obj is not None:
        # second route: the returned grammar's own membership (catches a wrong memo carried into the result)
        terms = sorted(res.terminals, key=repr)[:2]
        import itertools
        for k in range(4):
            for w in itertools.product(terms, repeat=k):
                try:
                    ans = result_obj.contains(list(w))
                except Exception as e:
                    core.report(PROP, name, "result-contains-exception:" + type(e).__name__, {"word": list(w)}, tags)
                    return
                if bool(ans) != (tuple(w) in exp):
                    core.report(PROP, name, "result-contains-disagrees", {"word": list(w)}, tags)
                    return


def frame(name, refs, objs, tags):
    for r, o in zip(refs, objs):
        if extract.cfg(o).key() != r.key():
            core.report(PROP, name, "operand-mutated", None, tags)
            return


def make_post2(name, op):
    def post(st, self, args, kwargs, result, exc):
        if st is None:
            return
        tags = tags_all(st)
        if args[0] is self:
            tags.append("same_object")
        if exc is not None:
            core.report(PROP, name, "exception:" + type(exc).__name__, {"msg": str(exc)[:80]}, tags)
            return
        frame(name, st, (self, args[0]), tags)
        compare(name, op(set(st[0].words(N)), set(st[1].words(N))), ref_of(result), tags, result)
    return post


def make_post1(name, op):
    def post(st, self, args, kwargs, result, exc):
        tags = tags_all(st)
        if exc is not None:
            core.report(PROP, name, "exception:" + type(exc).__name__, {"msg": str(exc)[:80]}, tags)
            return
        frame(name, st, (self,), tags)
        compare(name, op(set(st[0].words(N))), ref_of(result), tags, result)
    return post


def post_subst(st, self, args, kwargs, result, exc):
    if st is None:
        return
    ref, m = st
    tags = tags_all([ref] + list(m.values()))
    if exc is not None:
        core.report(PROP, "substitute", "exception:" + type(exc).__name__, {"msg": str(exc)[:80]}, tags)
        return
    # reference: one combined grammar with tagged variables
    prods = []
    for h, b in ref.prods:
        prods.append((("m", h), tuple(("V", ("s", x[1], m[x[1]].start)) if (x[0] == "T" and x[1] in m)
                                      else (("V", ("m", x[1])) if x[0] == "V" else x) for x in b)))
    for t, g in m.items():
        for h, b in g.prods:
            prods.append((("s", t, h), tuple(("V", ("s", t, x[1])) if x[0] == "V" else x for x in b)))
    exp = rc.Grammar(prods, ("m", ref.start)).words(N) if ref.start is not None else set()
    compare("substitute", set(exp), ref_of(result), tags, result)


def install():
    from pyformlang.cfg import CFG
    m = core.monitored
    m(CFG, "union", PROP, pre2, make_post2("union", lambda a, b: a | b))
    m(CFG, "concatenate", PROP, pre2, make_post2("concatenate", lambda a, b: rc.concat_sets(a, b, N)))
    m(CFG, "__or__", PROP, pre2, make_post2("union", lambda a, b: a | b))
    m(CFG, "__add__", PROP, pre2, make_post2("concatenate", lambda a, b: rc.concat_sets(a, b, N)))
    m(CFG, "get_closure", PROP, pre1, make_post1("get_closure", lambda a: rc.star_set(a, N)))
    m(CFG, "get_positive_closure", PROP, pre1, make_post1("get_positive_closure", lambda a: rc.star_set(a, N, True)))
    m(CFG, "reverse", PROP, pre1, make_post1("reverse", lambda a: {w[::-1] for w in a}))
    m(CFG, "__invert__", PROP, pre1, make_post1("reverse", lambda a: {w[::-1] for w in a}))
    m(CFG, "substitute", PROP, pre_subst, post_subst)


def many_variables_case(rng, n=160):
    """S -> V_i ; V_i -> t_(i mod 2) W_i ; W_i -> t : more than 128 variables in one operand"""
    prods = []
    for i in range(1, n, 2):
        prods.append([0, [["V", i]]])
        prods.append([i, [["T", i % 3 % 2], ["V", i + 1]]])
        prods.append([i + 1, [["T", (i // 2) % 2]]])
    return {"nv": n + 1, "nt": 2, "start": 0, "prods": prods, "vc": "int"}


def plan(tier, rng, sl, nslices, stats):
    cfg = TIERS[tier]
    if sl == 0:
        # scale cases (one worker): eight nested closures of two tiny grammars; an operand with 160 variables
        yield {"a": {"nv": 1, "nt": 2, "start": 0, "prods": [[0, [["T", 0]]]], "vc": "str"},
               "b": {"nv": 1, "nt": 2, "start": 0, "prods": [[0, [["T", 1]]]], "vc": "str"}, "deep": 8}
        yield {"a": many_variables_case(rng), "b": {"nv": 1, "nt": 2, "start": 0, "prods": [[0, [["T", 1]]]], "vc": "str"}}
        yield {"a": {"nv": 2, "nt": 2, "start": 0, "prods": [[0, [["T", 0], ["V", 1]]], [1, [["T", 1]]]], "vc": "str"},
               "b": many_variables_case(rng)}
    for i in range(cfg["random"]):
        a = gcfg.random_case(rng, max_vars=3, max_terms=2, max_prods=5, max_body=3)
        r = rng.random()
        if r < 0.12:
            b = None
        else:
            b = gcfg.random_case(rng, max_vars=3, max_terms=2, max_prods=5, max_body=3,
                                 vcs=[a["vc"]] if rng.random() < 0.6 else None)
            if r < 0.2:
                b["prods"] = [[0, []]]          # epsilon-only language
            elif r < 0.26:
                b["prods"] = [[0, [["V", 0], ["T", 0]]]]    # empty language
        if rng.random() < 0.15:
            # the receiver already owns variables spelled like the fresh names of substitute (X#SUBS#k)
            a["vc"] = "reserved"
            a["nv"] = max(a["nv"], 4)
            a["prods"].append([3, [["T", 0]]])
            a["prods"].append([0, [["V", 3], ["T", 0]]])
            if b is not None:
                b["vc"] = "str"
        if rng.random() < 0.06 and b is not None:
            a["start"] = None
            b["vc"] = "emptyname"
            if rng.random() < 0.6:
                b["nv"] = 1
                b["prods"] = [[0, [["T", 0]]], [0, [["T", 1], ["V", 0]]]][:rng.randint(1, 2)]
        yield {"a": a, "b": b, "warm": rng.random() < 0.5}


def run_case(c, stats):
    from pyformlang.cfg import Terminal
    A = gcfg.build(c["a"])
    B = A if c["b"] is None else gcfg.build(c["b"])
    stats.cls("vc:" + c["a"]["vc"])
    stats.cls("same_object" if c["b"] is None else "pair")
    with core.oracle_mode():
        ra, rb = ref_of(A), ref_of(B)
        nt = bool(ra.words(N)) and bool(rb.words(N))
        for t in tags_all([ra, rb]):
            stats.cls("tag:" + t)
    if c.get("warm"):
        # the operands' memo state is part of the case: analyses cached before they are used as operands
        t0 = gcfg.tval(c["a"], 0)
        call(A.contains, [t0, t0])
        call(A.is_finite)
        call(B.get_nullable_symbols)
        call(B.contains, [t0])
    call(A.union, B)
    call(A.concatenate, B)
    call(B.concatenate, A)
    call(A.get_closure)
    call(A.get_positive_closure)
    call(A.reverse)
    call(lambda: A | B)
    call(lambda: A + B)
    call(lambda: ~A)
    ta = Terminal(gcfg.tval(c["a"], 0))
    call(A.substitute, {ta: B})
    if c["a"]["nt"] > 1:
        call(A.substitute, {ta: B, Terminal(gcfg.tval(c["a"], 1)): A})
    ok, u = call(A.union, B)
    if ok:
        call(u.concatenate, A)       # operations on results (renamed variables)
    # every unary operation applied to the result of every unary operation (L+* = L*, L*+ = L*, (L^R)* ...)
    unary = ["get_closure", "get_positive_closure", "reverse"]
    for f1 in unary:
        ok1, r1 = call(getattr(A, f1))
        if ok1:
            for f2 in unary:
                call(getattr(r1, f2))
    ok, s1 = call(A.substitute, {ta: B})
    if ok:
        # substitute on a result of substitute: its variables already carry #SUBS# suffixes
        for t in list(s1.terminals)[:2]:
            call(s1.substitute, {t: B})
            call(s1.substitute, {t: A})
    if c.get("deep"):
        # eight nested closures on each operand (fresh names grow by one suffix per level), then the two are combined
        ra_, rb_ = A, B
        for _ in range(c["deep"]):
            ok1, ra_ = call(ra_.get_closure)
            ok2, rb_ = call(rb_.get_closure)
            if not (ok1 and ok2):
                break
        else:
            call(ra_.concatenate, rb_)
            call(ra_.union, rb_)
    return nt
