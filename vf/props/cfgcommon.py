"""shared helpers for the CFG properties (C08-C13)"""
from vf import core, extract

_REFS = {}


def ref_of(g):
    """reference grammar of a library CFG, memoised by structure so that bounded languages are reused"""
    r = extract.cfg(g)
    k = r.key()
    hit = _REFS.get(k)
    if hit is None:
        if len(_REFS) > 300:
            _REFS.clear()
        _REFS[k] = hit = r
    return hit


def tags_of(ref):
    t = []
    if {v for v in ref.variables} & set(ref.terminals):
        t.append("var_term_clash")
    if any((str(x) + "#CNF#") in ref.variables for x in ref.terminals):
        t.append("cnf_name_collision")
    if ref.start is None:
        t.append("no_start")
    if any(len(b) == 1 and b[0] == ("V", h) for h, b in ref.prods):
        t.append("unit_self_loop")
    if not all(isinstance(v, str) for v in ref.variables):
        t.append("non_string_variable")
    return t


def word_values(word):
    from pyformlang.cfg import Terminal, Epsilon
    out = []
    try:
        from vf.values import items_of
        items = items_of(word)
    except TypeError:
        return None
    for x in items:
        if isinstance(x, Epsilon):
            continue
        out.append(x.value if isinstance(x, Terminal) else x)
    return tuple(out)
