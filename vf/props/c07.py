"""C07 - PythonRegex agrees with re.fullmatch on the documented subset."""
import itertools
import re
import weakref

from vf import core
from vf.worker import call

PROP = "C07"
TECHNIQUE = "runtime contracts with shadow state: every PythonRegex carries the compiled CPython pattern; accepts() is compared with re.fullmatch on every call"
RULE = ("patterns generated from an AST of the documented subset (literals, escaped metacharacters, '.', sets and "
        "negated sets with ranges / metacharacters / shortcuts inside, alternation, nested groups, * + ? {m} {m,n} "
        "incl. m=0 and m=n, \\d \\s \\w also under quantifiers) and patterns broken into ones re.compile rejects; "
        "the oracle is CPython's re: accepts(s) must equal (re.fullmatch(p,s) is not None) for all strings <=2 over a "
        "per-pattern alphabet (its literals + a b 0 _ - blank newline tab + one metacharacter) plus strings sampled "
        "from the pattern and one-edit mutations of them (<=8 chars). Non-trivial: pattern has >=1 operator "
        "(set, quantifier, alternation, group, shortcut or dot); distinct = distinct pattern text.")
ASSUMPTIONS = ["outside the documented subset and not generated: anchors, lazy/possessive quantifiers, {m,}, {,n}, "
               "back-references, look-around, flags, non-ASCII, empty groups/alternatives"]
TIERS = {
    "quick": {"workers": 4, "random": 220},
    "thorough": {"workers": 16, "random": 3000, "exhaustive": True, "pytest": True, "hard_timeout": 3300},
}
MIN = {"quick": {"C07.PythonRegex.__init__": 500, "C07.accepts": 30000},
       "thorough": {"C07.PythonRegex.__init__": 20000, "C07.accepts": 1000000}}

MECH = {
        "empty_group", "empty_alternative"}
SHADOW = weakref.WeakKeyDictionary()    # PythonRegex -> (compiled re, pattern text, feature tags)


def anchors():
    from pyformlang.regular_expression import PythonRegex as P
    return [P._preprocess_brackets, P._preprocess_brackets_content, P._preprocess_negation,
            P._preprocess_positive_closure, P._add_repetition, P._preprocess_optional, P._separate, P._recombine]


# ---------------------------------------------------------------- pattern ASTs

LITS = list("ab0_-") + [" "]
METAS = list(".*+?()[]|\\{}^$") + [" "]
SHORT = ["\\d", "\\s", "\\w"]


def gen_set(rng):
    if rng.random() < 0.03:
        # a negated set that excludes every printable character and all white space: nothing belongs to it
        return ("set", True, (("range", "!", "~"), ("short", "\\s")) if rng.random() < 0.5 else
                (("short", "\\s"), ("range", "!", "~")))
    neg = rng.random() < 0.3
    items = []
    for _ in range(rng.randint(1, 3)):
        r = rng.random()
        if r < 0.4:
            items.append(("ch", rng.choice("abc019_")))
        elif r < 0.6:
            lo, hi = rng.choice([("a", "c"), ("0", "9"), ("a", "b"), ("b", "b"), ("A", "Z"), ("0", "1"),
                                 # wide ranges, whose interior holds '-', '^', ']' and other metacharacters
                                 (" ", "~"), ("!", "/"), ("%", "9"), ("A", "z"), ("!", "~")])
            items.append(("range", lo, hi))
        elif r < 0.75:
            items.append(("meta", rng.choice(list("+*.()|?$"))))
        elif r < 0.83:
            items.append(("esc", rng.choice(["]", "\\", "-", "^", "[", "|", "|", ".", "*", "+", "?", "(", ")", "$", "{", "}"])))
        elif r < 0.93:
            items.append(("short", rng.choice(SHORT)))
        elif r < 0.97:
            items.append(("dash",))
        else:
            items.append(("caret",))
    if rng.random() < 0.15:
        # a set that starts with a range and ends with a literal dash: [a-c-]
        items = [("range",) + rng.choice([("a", "c"), ("0", "9"), ("A", "Z")])] + items[:1] + [("dash",)]
    # the library turns a set into a union of its members, one alternative per listed character: at most one wide
    # range per set keeps that union within what its recursive reader can take (a resource bound, not a judgement)
    wide = [it for it in items if it[0] == "range" and ord(it[2]) - ord(it[1]) > 30]
    for it in wide[1:]:
        items.remove(it)
    while set_width(items) > 160 and len(items) > 1:
        items.remove(max(items, key=lambda it: set_width([it])))
    return ("set", neg, tuple(items))


def set_width(items):
    """how many characters a set lists (one alternative each in the library's rewriting)"""
    n = 0
    for it in items:
        if it[0] == "range":
            n += ord(it[2]) - ord(it[1]) + 1
        elif it[0] == "short":
            n += {"\\d": 10, "\\s": 6, "\\w": 63}.get(it[1], 90)
        else:
            n += 1
    return n


def gen_atom(rng):
    r = rng.random()
    if r < 0.45:
        return ("lit", rng.choice(LITS))
    if r < 0.55:
        return ("esc", rng.choice(METAS))
    if r < 0.63:
        return ("dot",)
    if r < 0.73:
        return ("short", rng.choice(SHORT))
    return gen_set(rng)


QUANTS = [("*",), ("+",), ("?",), ("rep", 0), ("rep", 1), ("rep", 2), ("rep", 3), ("rep2", 0, 1), ("rep2", 1, 2),
          ("rep2", 2, 2), ("rep2", 0, 2), ("rep2", 1, 3), ("rep2", 0, 0),
          # bounds with two digits (m < n as numbers, m > n as texts) and a large single bound
          ("rep2", 2, 10), ("rep2", 9, 11), ("rep2", 1, 10), ("rep", 10), ("rep2", 10, 12)]


def expansion(t):
    """how many copies of its atoms the rewriting of the counted repetitions makes (a resource bound for the generator:
    the library expands {m,n} textually, patterns that blow up are not what is being judged)"""
    k = t[0]
    if k == "q":
        q = t[2]
        rep = {"rep": lambda: max(q[1], 1), "rep2": lambda: max(q[2], 1)}.get(q[0], lambda: 1)()
        return rep * expansion(t[1])
    if k in ("cat", "alt"):
        return expansion(t[1]) + expansion(t[2])
    if k == "grp":
        return expansion(t[1])
    if k == "set" and set_width(t[2]) > 100:
        return 6            # a wide set under a two-digit bound: 150 alternatives copied ten times exhaust the reader
    return 1


def gen(rng, d):
    for _ in range(20):
        t = gen0(rng, d)
        if expansion(t) <= 40:
            return t
    return gen0(rng, 0)


def gen0(rng, d):
    r = rng.random()
    if d == 0 or r < 0.3:
        a = gen_atom(rng)
        if rng.random() < 0.45:
            return ("q", a, rng.choice(QUANTS))
        return a
    if r < 0.6:
        return ("cat", gen0(rng, d - 1), gen0(rng, d - 1))
    if r < 0.78:
        return ("alt", gen0(rng, d - 1), gen0(rng, d - 1))
    g = ("grp", gen0(rng, d - 1))
    if rng.random() < 0.6:
        return ("q", g, rng.choice(QUANTS))
    return g


def render_set(t):
    out = "[" + ("^" if t[1] else "")
    for i, it in enumerate(t[2]):
        k = it[0]
        if k == "ch":
            out += it[1]
        elif k == "range":
            out += it[1] + "-" + it[2]
        elif k == "meta":
            out += it[1]
        elif k == "esc":
            out += "\\" + it[1]
        elif k == "short":
            out += it[1]
        elif k == "dash":
            out += "-"
        elif k == "caret":
            out += "^" if (i > 0 or t[1]) else "\\^"
    return out + "]"


def render(t):
    k = t[0]
    if k == "lit":
        return t[1]
    if k == "esc":
        return "\\" + t[1]
    if k == "dot":
        return "."
    if k == "short":
        return t[1]
    if k == "set":
        return render_set(t)
    if k == "cat":
        l, r = t[1], t[2]
        ls = render(l)
        rs_ = render(r)
        if l[0] == "alt":
            ls = "(" + ls + ")"
        if r[0] == "alt":
            rs_ = "(" + rs_ + ")"
        return ls + rs_
    if k == "alt":
        return render(t[1]) + "|" + render(t[2])
    if k == "grp":
        return "(" + render(t[1]) + ")"
    if k == "q":
        inner = render(t[1])
        if t[1][0] in ("cat", "alt", "q"):
            inner = "(" + inner + ")"
        q = t[2]
        if q[0] == "rep":
            return inner + "{%d}" % q[1]
        if q[0] == "rep2":
            return inner + "{%d,%d}" % (q[1], q[2])
        return inner + q[0]
    raise ValueError(k)


def features(t, out=None):
    out = set() if out is None else out
    k = t[0]
    if k == "q":
        q = t[2]
        if q[0] in ("rep", "rep2"):
            out.add("rep")
            if q[1] == 0:
                out.add("rep_min0")
        else:
            out.add({"*": "star", "+": "plus", "?": "opt"}[q[0]])
        if t[1][0] in ("grp", "cat", "alt", "q"):
            out.add("quant_on_group")
        features(t[1], out)
    elif k in ("cat", "alt"):
        out.add(k)
        features(t[1], out)
        features(t[2], out)
    elif k == "grp":
        out.add("group")
        features(t[1], out)
    elif k == "set":
        out.add("set")
        if t[1]:
            out.add("negset")
        seen_short = False
        for i, it in enumerate(t[2]):
            if it[0] == "short":
                seen_short = True
            if it[0] == "meta" and seen_short and it[1] in "(+*)?.$":
                out.add("set_shortcut_then_meta")
            if t[1] and it[0] == "esc":
                out.add("negset_escape")
            if t[1] and it[0] == "dash" and i == 0:
                out.add("negset_leading_dash")
            if it[0] == "short":
                out.add("set_shortcut")
                if t[1]:
                    out.add("negset_shortcut")
            if it[0] == "meta":
                out.add("set_meta")
                if it[1] in ".$":
                    out.add("set_dot_or_dollar")
            if it[0] == "esc":
                out.add("set_escape")
            if it[0] == "caret":
                out.add("set_caret")
            if it[0] == "dash":
                out.add("set_dash")
            if it[0] == "range":
                out.add("set_range")
    elif k == "dot":
        out.add("dot")
    elif k == "short":
        out.add("shortcut")
    elif k == "esc":
        out.add("escape")
        if t[1] in "{}^$":
            out.add("escape_" + {"{": "brace", "}": "brace", "^": "caret", "$": "dollar"}[t[1]])
    elif k == "lit" and t[1] == " ":
        out.add("blank")
    if k == "esc" and t[1] == " ":
        out.add("escaped_blank")
    return out


def sample(t, rng):
    """a string matched by the pattern AST (reference-side)"""
    k = t[0]
    if k == "lit":
        return t[1]
    if k == "esc":
        return t[1]
    if k == "dot":
        return rng.choice("ab0 _-.*x")
    if k == "short":
        return {"\\d": "07", "\\s": " \t", "\\w": "aZ_5"}[t[1]][rng.randrange(2)]
    if k == "set":
        chars = set_chars(t)
        pool = [c for c in "abc019_AZ+*.()|?$]\\-^[ \n\tx" if (c in chars) != t[1]]
        return rng.choice(pool) if pool else ""
    if k == "cat":
        return sample(t[1], rng) + sample(t[2], rng)
    if k == "alt":
        return sample(t[rng.choice([1, 2])], rng)
    if k == "grp":
        return sample(t[1], rng)
    if k == "q":
        q = t[2]
        if q[0] == "*":
            n = rng.randint(0, 2)
        elif q[0] == "+":
            n = rng.randint(1, 2)
        elif q[0] == "?":
            n = rng.randint(0, 1)
        elif q[0] == "rep":
            n = q[1]
        else:
            n = rng.randint(q[1], q[2])
        return "".join(sample(t[1], rng) for _ in range(n))
    raise ValueError(k)


def set_chars(t):
    s = set()
    for it in t[2]:
        if it[0] in ("ch", "meta", "esc"):
            s.add(it[1])
        elif it[0] == "range":
            s |= {chr(c) for c in range(ord(it[1]), ord(it[2]) + 1)}
        elif it[0] == "short":
            s |= set({"\\d": "0123456789", "\\s": " \t\n\r\f\v",
                      "\\w": "abcdefghijklmnopqrstuvwxyzABCDEFGHIJKLMNOPQRSTUVWXYZ0123456789_"}[it[1]])
        elif it[0] == "dash":
            s.add("-")
        elif it[0] == "caret":
            s.add("^")
    return s


def literals(t, out):
    k = t[0]
    if k in ("lit", "esc"):
        out.add(t[1])
    elif k == "set":
        for it in t[2]:
            if it[0] in ("ch", "meta", "esc"):
                out.add(it[1])
            elif it[0] == "range":
                out.add(it[1])
                out.add(it[2])
            elif it[0] == "caret":
                out.add("^")
    else:
        for x in t[1:]:
            if isinstance(x, tuple) and x and isinstance(x[0], str) and x[0] in (
                    "lit", "esc", "dot", "short", "set", "cat", "alt", "grp", "q"):
                literals(x, out)
    return out


def strings_for(t, rng):
    lit = sorted(literals(t, set()))[:4]
    alpha = []
    extra = []
    if any(x in repr(t) for x in ("\\\\s", "\\\\d", "\\\\w")):
        # every whitespace character and the letters their escapes are spelled with
        extra = ["\x0b", "\r", "\f", "v", "t", "n", "9", "Z"]
        rng.shuffle(extra)
        extra = extra[:4]
    for c in lit + extra + list("ab0_- \n\t") + [rng.choice(".*+?^$|")]:
        if c not in alpha:
            alpha.append(c)
    alpha = alpha[:12]
    S = []
    seen = set()
    for k in range(3):
        for w in itertools.product(alpha, repeat=k):
            s = "".join(w)
            if s not in seen:
                seen.add(s)
                S.append(s)
    for _ in range(40):
        s = sample(t, rng)[:8]
        for cand in (s, mutate_str(s, rng, alpha)):
            if cand not in seen:
                seen.add(cand)
                S.append(cand)
    return S


def mutate_str(s, rng, alpha):
    if not s:
        return rng.choice(alpha)
    i = rng.randrange(len(s))
    r = rng.random()
    if r < 0.35:
        return s[:i] + s[i + 1:]
    if r < 0.7:
        return s[:i] + rng.choice(alpha) + s[i + 1:]
    return s[:i] + rng.choice(alpha) + s[i:]


def break_pattern(p, rng):
    how = rng.choice(["unclosed(", "unclosed[", "extra)", "leadq", "badrange", "dblq", "shortrange", "shortrange", "badrep"])
    if how == "shortrange":
        # a shortcut class as an end point of a range: Python refuses it
        return p + rng.choice(["[\\d-a]", "[a-\\d]", "[\\w-z]", "[+-\\d]", "[^\\s-a]", "([\\d-\\d])*", "[0-\\w]"])
    if how == "badrep":
        return p + rng.choice(["a{2,1}", "(b){3,0}"])
    if how == "unclosed(":
        return "(" + p
    if how == "unclosed[":
        return p + "[a"
    if how == "extra)":
        return p + ")"
    if how == "leadq":
        return rng.choice("*+?") + p
    if how == "badrange":
        return p + "[c-a]"
    return p + "a**"


# ---------------------------------------------------------------- contracts

def text_features(p):
    f = set()
    if re.search(r"\{0(,\d+)?\}", p):
        f.add("rep_min0")
    if re.search(r"\{\d+(,\d+)?\}", p):
        f.add("rep")
    if "[^" in p:
        f.add("negset")
    if re.search(r"\[[^\]]*[.$][^\]]*\]", p):
        f.add("set_dot_or_dollar")
    if "\\ " in p:
        f.add("escaped_blank")
    if re.search(r"\[\^[^\]]*\\[dsw]", p):
        f.add("negset_shortcut")
    if re.search(r"\[\^([^\]\\]|\\.)*\\[^dsw]", p):
        f.add("negset_escape")
    if "[^-" in p:
        f.add("negset_leading_dash")
    if re.search(r"\[([^\]\\]|\\.)*\\[dsw]([^\]\\]|\\.)*[(+*)?.$]", p):
        f.add("set_shortcut_then_meta")
    if "()" in p:
        f.add("empty_group")
    if re.search(r"\|\)|\(\||^\||\|$|\|\|", p):
        f.add("empty_alternative")
    return f


def widest_set(p):
    """number of characters listed by the widest set of a pattern, read off Python's own parse tree"""
    parser = getattr(re, "_parser", None)
    if parser is None:
        import sre_parse as parser
    try:
        tree = parser.parse(p)
    except Exception:      # noqa
        return 0
    best = [0]

    def walk(t):
        for op, av in t:
            o = str(op)
            if o == "IN":
                n = 0
                for op2, av2 in av:
                    o2 = str(op2)
                    if o2 == "LITERAL":
                        n += 1
                    elif o2 == "RANGE":
                        n += av2[1] - av2[0] + 1
                    elif o2 == "CATEGORY":
                        n += {"CATEGORY_DIGIT": 10, "CATEGORY_SPACE": 6, "CATEGORY_WORD": 63}.get(str(av2), 90)
                best[0] = max(best[0], n)
            elif o in ("MAX_REPEAT", "MIN_REPEAT"):
                walk(av[2])
            elif o == "SUBPATTERN":
                walk(av[3])
            elif o == "BRANCH":
                for b in av[1]:
                    walk(b)
    walk(tree)
    return best[0]


# sets that list 150 characters and more: the library rewrites a set into a union with one alternative per character and
# its recursive reader runs out of stack on them (known finding C07-wide-set-exhausts-the-reader)
WIDE_ASTS = [("set", False, (("range", "!", "~"), ("range", " ", "~"))),
             ("cat", ("lit", "0"), ("q", ("set", False, (("short", "\\w"), ("caret",), ("range", "!", "~"))), ("rep2", 2, 10))),
             ("cat", ("lit", "x"), ("q", ("set", False, (("range", " ", "~"), ("range", "!", "~"))), ("*",)))]


def post_init(st, self, args, kwargs, result, exc):
    p = args[0] if args else kwargs.get("python_regex")
    if not isinstance(p, str):
        p = getattr(p, "pattern", None)
        if not isinstance(p, str):
            return
    case = core.LOG.case if isinstance(core.LOG.case, dict) else {}
    feats = set(case.get("features", ())) if case.get("pattern") == p else text_features(p)
    tags = sorted("pat:" + f for f in feats if f in MECH)
    if widest_set(p) >= 150:
        tags.append("set_of_150_characters_or_more")
    try:
        cp = re.compile(p)
    except re.error:
        cp = None
    except RecursionError:
        return
    if cp is None:
        if exc is None:
            core.report(PROP, "construct", "invalid-pattern-accepted", {"pattern": p}, tags)
        return
    if exc is not None:
        core.report(PROP, "construct", "valid-pattern-refused:" + type(exc).__name__, {"pattern": p}, tags)
        return
    SHADOW[self] = (cp, p, tags)


def pre_accepts(self, args, kwargs):
    return SHADOW.get(self)


def str_tags(s):
    return []


def post_accepts(sh, self, args, kwargs, result, exc):
    if sh is None:
        return
    core.LOG.count("C07.accepts")
    w = args[0]
    try:
        s = w if isinstance(w, str) else "".join(w)
    except TypeError:
        return
    cp, p, tags = sh
    exp = cp.fullmatch(s) is not None
    if exc is not None:
        core.report(PROP, "accepts", "exception:" + type(exc).__name__, {"pattern": p, "string": s}, tags + str_tags(s))
    elif bool(result) != exp:
        core.report(PROP, "accepts", "wrong-accept" if result else "wrong-reject", {"pattern": p, "string": s},
                    tags + str_tags(s))


def install():
    from pyformlang.regular_expression import PythonRegex, Regex
    core.monitored(PythonRegex, "__init__", PROP, None, post_init)
    core.monitored(Regex, "accepts", PROP, pre_accepts, post_accepts)


# ---------------------------------------------------------------- workload

def small_asts():
    atoms = [("lit", "a"), ("lit", "b"), ("dot",), ("set", False, (("ch", "a"), ("ch", "b"))),
             ("set", True, (("ch", "a"),)), ("short", "\\d")]
    out = list(atoms)
    for a in atoms:
        for q in QUANTS:
            out.append(("q", a, q))
    for a in atoms[:4]:
        for b in atoms[:4]:
            out.append(("cat", a, b))
            out.append(("alt", a, b))
            for q in QUANTS:
                out.append(("q", ("grp", ("cat", a, b)), q))
                out.append(("q", ("grp", ("alt", a, b)), q))
    return out


def plan(tier, rng, sl, nslices, stats):
    cfg = TIERS[tier]
    if sl == 0:
        for t in WIDE_ASTS:
            yield {"pattern": render(t), "features": sorted(features(t)), "ast": t, "sseed": 1 + len(render(t))}
    for i in range(cfg["random"]):
        t = gen(rng, rng.choice([0, 1, 1, 2, 2]))
        if i % 10 == 5:
            # an escaped metacharacter (a literal bracket, brace, parenthesis ...) directly before a shortcut class or a
            # set, bare or quantified: scanners that track "inside a set" / "inside a group" by the character alone
            nxt = ("short", rng.choice(SHORT)) if rng.random() < 0.6 else gen_set(rng)
            if rng.random() < 0.4:
                nxt = ("q", nxt, rng.choice(QUANTS[:13]))
            t = ("cat", ("esc", rng.choice(list("[](){}|"))), nxt)
            if rng.random() < 0.4:
                t = ("cat", t, gen(rng, 0))
            if rng.random() < 0.2:
                t = ("alt", t, gen(rng, 0))
        p = render(t)
        c = {"pattern": p, "features": sorted(features(t)), "ast": t, "sseed": rng.randrange(1 << 30)}
        yield c
        if i % 6 == 0:
            yield {"pattern": break_pattern(p, rng), "features": sorted(features(t)), "broken": True}
    if cfg.get("exhaustive"):
        asts = small_asts()
        for i in range(sl, len(asts), nslices):
            t = asts[i]
            yield {"pattern": render(t), "features": sorted(features(t)), "ast": t, "sseed": i, "exh": 1}
        stats.extra["exhaustive_complete"] = True
        stats.extra["exhaustive_scopes"] = "%d small patterns: 6 atoms x 13 quantifiers, pairs, quantified groups" % len(asts)


def to_tuple(x):
    return tuple(to_tuple(y) for y in x) if isinstance(x, list) else x


def run_case(c, stats):
    import random
    from pyformlang.regular_expression import PythonRegex
    p = c["pattern"]
    for f in c.get("features", ()):
        stats.cls("pat:" + f)
    if c.get("broken"):
        stats.cls("broken")
        call(PythonRegex, p)
        return False
    t = to_tuple(c["ast"])
    try:
        re.compile(p)
    except re.error:
        core.LOG.discard("generator_produced_invalid_pattern")
        return False
    # the pattern is given as text or, every fifth time, as a compiled pattern object
    ok, r = call(PythonRegex, re.compile(p) if c["sseed"] % 5 == 0 else p)
    if not ok:
        return True
    rng = random.Random(c["sseed"])
    for s in strings_for(t, rng):
        call(r.accepts, s)
    return bool(c.get("features"))
