"""C18 - feature structures: unification is the glb; FCFG membership respects unification."""
import itertools
import json

from vf import core, values
from vf.ref import cfg as rc
from vf.ref import fs as rfs
from vf.worker import call

PROP = "C18"
N = 4
RULE = ("(a) pairs of consistently typed feature structures of depth <=2 over features f,g,h and atoms x,y "
        "(unspecified values, nested structures, re-entrancy) built through the object API: every unify call (also the "
        "ones the Earley parser makes) is compared with union-find unification on the extracted graphs - success iff "
        "no atom clash, receiver afterwards equal to the glb as (path->atom, path-equivalence) canonical form, both "
        "argument orders, failure raises exactly FeatureStructuresNotCompatibleException; (b) random feature grammars "
        "(<=3 categories, <=2 features, domain {x,y}, agreement variables, equal skeletons, epsilon productions, "
        "ambiguity, left recursion; text and object API): contains(w) for all words <=%d compared with membership in "
        "the reference grounding, feature-free grammars also with the plain CFG semantics. "
        "Non-trivial: structures share >=1 path / grammar has a non-empty language; distinct = case hash." % N +
        ' Later additions: structure-valued agreement features, tied next to independent analyses of one constituent, alternatives on one line, the (n) reference syntax and VAR markers; a second reference grammar built from the case itself judges what the library read; production count up to variable renaming; words that are ambiguous in a feature below productions handing it upwards (one production completed over one span once per value).')
ASSUMPTIONS = ["feature lists of body symbols are rendered without blanks, as the text parser requires",
               "atom-against-complex conflicts (inconsistent typing) are not generated"]
TIERS = {
    "quick": {"workers": 4, "unify": 1200, "fcfg": 220},
    "thorough": {"workers": 16, "unify": 8000, "fcfg": 1000, "pytest": True, "hard_timeout": 3300},
}
MIN = {"quick": {"C18.FeatureStructure.unify": 5000, "C18.FCFG.contains": 10000},
       "thorough": {"C18.FeatureStructure.unify": 100000, "C18.FCFG.contains": 200000}}


def anchors():
    from pyformlang.fcfg import FCFG, FeatureStructure
    from pyformlang.fcfg import fcfg as m
    from pyformlang.fcfg.state import StateProcessed
    return [FeatureStructure.unify, FeatureStructure.get_dereferenced, FeatureStructure.copy,
            FeatureStructure.subsumes, StateProcessed.add, FCFG._get_final_state, m._scanner, m._completer]


# ---------------------------------------------------------------- extraction

def joint_graph(structs):
    """library FeatureStructures -> one ref Graph (shared nodes stay shared) + list of roots"""
    g = rfs.Graph()
    ids = {}
    keep = []

    def go(x, depth=0):
        d = x.get_dereferenced()
        if id(d) in ids:
            return ids[id(d)]
        if depth > 50:
            raise ValueError("structure too deep or cyclic")
        keep.append(d)
        n = g.new(d.value if not d.content else None)
        ids[id(d)] = n
        for k, c in d.content.items():
            g.nodes[n]["feats"][k] = go(c, depth + 1)
        return n
    roots = [go(s) for s in structs]
    return g, roots


def pre_unify(self, args, kwargs):
    from pyformlang.fcfg import FeatureStructure
    other = args[0] if args else None
    if not isinstance(other, FeatureStructure):
        return None
    g, (ra, rb) = joint_graph([self, other])
    return g, ra, rb


def post_unify(st, self, args, kwargs, result, exc):
    from pyformlang.fcfg.feature_structure import FeatureStructuresNotCompatibleException as Incompatible
    if st is None:
        return
    g, ra, rb = st
    try:
        glb = rfs.unify_joint(g, ra, rb)
        exp = rfs.canonical(glb)
    except rfs.TypeClash:
        core.LOG.discard("inconsistently_typed_through_reentrancy")
        return
    except rfs.Clash:
        glb = None
    except ValueError:
        core.LOG.discard("glb_is_cyclic")
        return
    nested = "nested" if core.LOG.depth > 0 else "top"
    tags = [nested] + list(core.LOG.case_tags)
    if exc is not None:
        if not isinstance(exc, Incompatible):
            core.report(PROP, "unify", "exception:" + type(exc).__name__, None, tags)
        elif glb is not None:
            core.report(PROP, "unify", "compatible-refused", None, tags)
        return
    if glb is None:
        core.report(PROP, "unify", "incompatible-accepted", None, tags)
        return
    g2, (r2,) = joint_graph([self])
    try:
        got = rfs.canonical(g2, r2)
    except ValueError:
        core.report(PROP, "unify", "result-cyclic", None, tags)
        return
    if got[0] != exp[0]:
        core.report(PROP, "unify", "receiver-atoms-differ-from-glb",
                    {"got": sorted(map(repr, got[0] - exp[0]))[:3], "missing": sorted(map(repr, exp[0] - got[0]))[:3]}, tags)
    elif got[1] != exp[1]:
        core.report(PROP, "unify", "receiver-sharing-differs-from-glb", None, tags)


# FCFG ---------------------------------------------------------------------------------------------

def slots_of(fs):
    """leaf paths of one occurrence -> ('atom', v) | ('var', node id)"""
    out = {}

    def go(x, path, depth=0):
        d = x.get_dereferenced()
        if d.content and depth < 6:
            for k, c in d.content.items():
                go(c, path + (k,), depth + 1)
        elif path:
            v = d.value
            out[path] = ("atom", v) if v is not None else ("var", id(d))
    go(fs, ())
    return out


def fcfg_ref(g):
    """library FCFG -> (productions with slots, start category, atoms, skeleton info)"""
    from pyformlang.cfg import Variable
    prods = []
    atoms = set()
    for p in g.productions:
        feats = p.features
        hs = slots_of(feats.get_feature_by_path(["head"]))
        body = []
        for i, x in enumerate(p.body):
            if isinstance(x, Variable):
                body.append(("V", x.value, slots_of(feats.get_feature_by_path([str(i)]))))
            else:
                body.append(("T", x.value))
        prods.append((p.head.value, hs, body))
        for sl in [hs] + [b[2] for b in body if b[0] == "V"]:
            for v in sl.values():
                if v[0] == "atom":
                    atoms.add(v[1])
    close_paths(prods)
    return prods, (g.start_symbol.value if g.start_symbol is not None else None), atoms


class InconsistentTyping(Exception):
    """a path is atomic in one place and complex in another: outside the property's quantifier"""


def close_paths(prods):
    """a variable standing at a path that is complex elsewhere in the grammar stands for a whole sub-structure:
    it is expanded to every leaf path below it, sharing one variable per (variable, suffix) (DESIGN.md E.4)"""
    occs = []
    for h, hs, body in prods:
        occs.append(hs)
        occs.extend(x[2] for x in body if x[0] == "V")
    paths = set()
    for sl in occs:
        paths |= set(sl)
    for sl in occs:
        for q in list(sl):
            ext = [p for p in paths if len(p) > len(q) and p[:len(q)] == q]
            if not ext:
                continue
            v = sl.pop(q)
            if v[0] == "atom":
                raise InconsistentTyping()
            # only the leaf paths below q
            for p in ext:
                if not any(len(p2) > len(p) and p2[:len(p)] == p for p2 in paths):
                    sl.setdefault(p, ("var", (v[1], p[len(q):])))


def grammar_tags(prods):
    t = []
    if any(not body for _, _, body in prods):
        t.append("has_epsilon_production")
    sk = [(h, tuple((x[0], x[1]) for x in body)) for h, _, body in prods]
    # nullable categories make Earley prediction/completion interact with epsilon
    return t


def pre_contains(self, args, kwargs):
    try:
        prods, start, atoms = fcfg_ref(self)
    except InconsistentTyping:
        core.LOG.discard("fcfg_inconsistently_typed")
        return None
    domain = sorted(atoms, key=repr) or ["x"]
    if start is None:
        return None
    gp, s0 = rfs.ground(prods, start, domain)
    return rc.Grammar(gp, s0), prods


_GROUND = {}


def post_contains(st, self, args, kwargs, result, exc):
    from vf.props.cfgcommon import word_values
    if st is None:
        return
    ref, prods = st
    key = ref.key()
    ref = _GROUND.setdefault(key, ref)
    if len(_GROUND) > 50:
        _GROUND.clear()
    w = word_values(args[0])
    if w is None:
        return
    tags = grammar_tags(prods) + list(core.LOG.case_tags)
    if exc is not None:
        core.report(PROP, "contains", "exception:" + type(exc).__name__, {"word": list(w)}, tags)
        return
    exp = w in ref.words(len(w))
    if bool(result) != exp:
        core.report(PROP, "contains", "wrong-accept" if result else "wrong-reject", {"word": list(w)}, tags)


def install():
    from pyformlang.fcfg import FCFG, FeatureStructure
    core.monitored(FeatureStructure, "unify", PROP, pre_unify, post_unify)
    core.monitored(FCFG, "contains", PROP, pre_contains, post_contains)


# ---------------------------------------------------------------- workload

FEATS = ["f", "g", "h"]
ATOMS = ["x", "y"]


def rand_spec(rng, depth=2):
    d = {}
    for f in FEATS:
        r = rng.random()
        if r < 0.3:
            continue
        if r < 0.55:
            d[f] = rng.choice(ATOMS)
        elif r < 0.7:
            d[f] = None
        elif r < 0.82:
            d[f] = ["ref", rng.randrange(2)]
        elif depth > 1:
            d[f] = rand_spec(rng, depth - 1)
        else:
            d[f] = rng.choice(ATOMS)
    return d


def typed_consistently(a, b):
    """a path is atomic (or unspecified) in one and complex in the other -> outside the quantifier"""
    for k in set(a) & set(b):
        ca, cb = isinstance(a[k], dict), isinstance(b[k], dict)
        la = a[k] is not None and not ca and not isinstance(a[k], list)
        lb = b[k] is not None and not cb and not isinstance(b[k], list)
        if (ca and lb) or (cb and la):
            return False
        if ca and cb and not typed_consistently(a[k], b[k]):
            return False
    return True


FALSY = {"x": 0, "y": ""}        # atomic values that are falsy in Python (bar level 0, an empty text)


def build_fs(spec, falsy=False):
    from pyformlang.fcfg import FeatureStructure
    refs = {}

    def build(s):
        if isinstance(s, dict):
            n = FeatureStructure()
            for k, v in s.items():
                n.add_content(k, build(v))
            return n
        if isinstance(s, list) and s and s[0] == "ref":
            if s[1] not in refs:
                refs[s[1]] = FeatureStructure()
            return refs[s[1]]
        return FeatureStructure(FALSY.get(s, s) if falsy else s)
    return build(spec)


CATS = ["S", "A", "B"]


def rand_feats(rng, feats):
    d = {}
    for f in feats:
        r = rng.random()
        if r < 0.25:
            d[f] = rng.choice(ATOMS)
        elif r < 0.5:
            d[f] = "?" + rng.choice(["u", "w"])
    return d


def rand_fcfg(rng):
    feats = ["f", "g"][:rng.choice([0, 1, 2, 2])]
    prods = []
    p_eps = rng.choice([0, 0, 0.15])
    for _ in range(rng.choice([2, 3, 4, 5])):
        h = rng.choice(CATS)
        body = []
        if rng.random() >= p_eps:
            for _ in range(rng.choice([1, 1, 2, 2, 3])):
                if rng.random() < 0.5:
                    body.append(["T", rng.choice("ab")])
                else:
                    body.append(["V", rng.choice(CATS), rand_feats(rng, feats)])
        prods.append([h, rand_feats(rng, feats), body])
    if rng.random() < 0.2 and feats:
        # two productions that differ only by an extra feature on their LAST body symbol (either one first)
        cat = rng.choice(CATS)
        f0 = {feats[0]: rng.choice(ATOMS)}
        f1 = dict(f0, **{(feats[1] if len(feats) > 1 else "h"): rng.choice(ATOMS)})
        pre = [["T", rng.choice("ab")]] if rng.random() < 0.4 else []
        pair = [[rng.choice(CATS), {}, pre + [["V", cat, f1]]], None]
        pair[1] = [pair[0][0], {}, pre + [["V", cat, f0]]]
        if rng.random() < 0.5:
            pair.reverse()
        prods[rng.randrange(len(prods) + 1):0] = pair
    if rng.random() < 0.2 and prods:
        # a second production with the same skeleton but other features
        h, hf, body = rng.choice(prods)
        prods.append([h, rand_feats(rng, feats), [list(x[:2]) + ([rand_feats(rng, feats)] if x[0] == "V" else []) for x in body]])
    return {"kind": "fcfg", "prods": prods, "via": rng.choice(["text", "text", "api"])}


def agreement_fcfg(rng):
    """agreement templates: one variable shared by two features of a constituent, competing analyses of that
    constituent with specific atoms (also through a unit production), and siblings that pin the features"""
    a1, a2 = rng.choice(ATOMS), rng.choice(ATOMS)
    b1, b2 = rng.choice(ATOMS), rng.choice(ATOMS)
    prods = [["S", {}, [["V", "A", {"f": "?a", "g": "?b"}], ["V", "B", {"f": "?a"}], ["V", "C", {"g": "?b"}]]]]
    shared = rng.random() < 0.8
    prods.append(["A", {"f": "?u", "g": "?u" if shared else "?w"}, [["T", "a"]]])
    r = rng.random()
    if r < 0.45:
        prods.append(["A", {"f": a1, "g": a2}, [["V", "A", {}]]])              # unit production over the general A
    elif r < 0.8:
        prods.append(["A", {"f": a1, "g": a2}, [["T", "a"]]])                 # same skeleton, specific atoms
    else:
        prods.append(["A", {"f": a1}, [["T", "a"], ["T", "a"]]])
    r = rng.random()
    if r < 0.25:
        # the same constituent with its two features tied together AND, by another analysis, independent
        prods.append(["A", {"f": "?p", "g": "?q"} if shared else {"f": "?z", "g": "?z"}, [["T", "a"]]])
    elif r < 0.45:
        P, Q = rng.sample(["P", "Q", "R1", "Zz"], 2)
        prods[1] = ["A", {"f": "?z", "g": "?z"}, [["V", P, {}]]]
        prods.append(["A", {"f": "?p", "g": "?q"}, [["V", Q, {}]]])
        prods.append([P, {}, [["T", "a"]]])
        prods.append([Q, {}, [["T", "a"]]])
    prods.append(["B", {"f": b1}, [["T", "b"]]])
    if rng.random() < 0.5:
        prods.append(["B", {"f": "y" if b1 == "x" else "x"}, [["T", "b"], ["T", "b"]]])
    prods.append(["C", {"g": b2}, [["T", "a"]]])
    if rng.random() < 0.5:
        prods.append(["C", {"g": "y" if b2 == "x" else "x"}, [["T", "b"]]])
    rng.shuffle(prods)
    return {"kind": "fcfg", "prods": prods, "via": rng.choice(["text", "api"])}


def epsilon_fcfg(rng):
    """a nullable category wanted several times, also after input has been consumed and at the very end"""
    feats = rng.choice([[], ["f"]])
    fv = lambda: ({"f": rng.choice(ATOMS + ["?u"])} if feats and rng.random() < 0.6 else {})
    body = []
    for _ in range(rng.randint(2, 4)):
        r = rng.random()
        if r < 0.45:
            body.append(["V", "A", fv()])
        elif r < 0.6:
            body.append(["V", "B", fv()])
        else:
            body.append(["T", rng.choice("ab")])
    prods = [["S", {}, body], ["A", fv(), []], ["A", fv(), [["T", rng.choice("ab")]]]]
    if rng.random() < 0.6:
        prods.append(["B", fv(), [["V", "A", fv()], ["V", "A", fv()]]])
    else:
        prods.append(["B", fv(), [["T", "b"]]])
    if rng.random() < 0.3:
        prods.append(["S", {}, [["V", "S", {}], ["V", "A", fv()]]])
    rng.shuffle(prods)
    return {"kind": "fcfg", "prods": prods, "via": rng.choice(["text", "api"])}


def nested_fcfg(rng):
    """agreement through a structure-valued feature: S -> X[g=?a] Y[g=?a]; X has a specific analysis
    (g=[n=.,p=.]) and a more general one (g=[n=.], directly or through a unit production) over the same words, Y
    pins p differently: which analysis reaches the chart first must not matter"""
    n1 = rng.choice(ATOMS)
    p1, p2 = rng.choice(ATOMS), rng.choice(ATOMS)
    X, Y, P = rng.sample(["A", "B", "C", "D", "NP", "VP", "Pro", "X1", "Y2"], 3)
    t = rng.choice("ab")
    prods = [["S", {}, [["V", X, {"g": "?a"}], ["V", Y, {"g": "?a"}]]],
             [X, {"g": {"n": n1, "p": p1}}, [["T", t]]]]
    r = rng.random()
    if r < 0.5:
        prods.append([X, {"g": {"n": n1}}, [["V", P, {}]]])
        prods.append([P, {}, [["T", t]]])
    elif r < 0.8:
        prods.append([X, {"g": {"n": n1}}, [["T", t]]])
    else:
        prods.append([X, {"g": {"p": p1}}, [["V", P, {}]]])
        prods.append([P, {}, [["T", t]]])
    prods.append([Y, {"g": {"n": n1, "p": p2}}, [["T", "b"]]])
    prods.append([Y, {"g": {"n": rng.choice(ATOMS), "p": p1}}, [["T", "a"]]])
    if rng.random() < 0.4:
        prods.append([Y, {"g": {"n": "y" if n1 == "x" else "x"}}, [["T", "b"], ["T", "b"]]])
    if rng.random() < 0.3:
        prods.append(["S", {}, [["V", "S", {}], ["V", Y, {"g": {"p": p2}}]]])
    rng.shuffle(prods)
    return {"kind": "fcfg", "prods": prods, "via": rng.choice(["text", "text", "api"])}


def shared_struct_fcfg(rng):
    """one analysis of C ties two STRUCTURE-valued features together (C[f=?x,g=?x] -> D[f=?x]), another one gives them
    two separate equal structures; the sister E adds different values below f and g: only the untied analysis fits"""
    a1 = rng.choice(ATOMS)
    p1, p2 = rng.choice([("x", "y"), ("y", "x"), ("x", "x")])
    C, D, E = rng.sample(["A", "B", "C", "D", "E", "X1", "Y2", "Pro"], 3)
    t1, t2 = rng.sample("ab", 2) if rng.random() < 0.7 else ("a", "a")
    prods = [["S", {}, [["V", C, {"f": "?a", "g": "?b"}], ["V", E, {"f": "?a", "g": "?b"}]]],
             [C, {"f": "?x", "g": "?x"}, [["V", D, {"f": "?x"}]]],
             [D, {"f": {"n": a1}}, [["T", t1]]],
             [C, {"f": {"n": a1}, "g": {"n": a1}}, [["T", t1]]],
             [E, {"f": {"n": a1, "p": p1}, "g": {"n": a1, "p": p2}}, [["T", t2]]]]
    if rng.random() < 0.3:
        prods.append([E, {"f": {"n": a1, "p": p2}, "g": {"n": a1, "p": p2}}, [["T", t2], ["T", t2]]])
    rng.shuffle(prods)
    return {"kind": "fcfg", "prods": prods, "via": rng.choice(["text", "api", "api"])}


def ambiguous_span_fcfg(rng):
    """a word that is ambiguous in a feature (Det[f=x] -> a and Det[f=y] -> a) below productions that hand the feature
    upwards (NP[f=?n] -> Det[f=?n] b, possibly through further layers): the same production is completed over the same
    span once per value, and the sister (VP[f=x] -> a, VP[f=y] -> b) decides which value is needed"""
    NP, Det, VP, Mid = rng.sample(["A", "B", "C", "D", "NP", "VP", "Det", "X1", "Y2"], 4)
    t = rng.choice("ab")
    feat = rng.choice(["f", "g"])
    layers = rng.choice([1, 1, 2, 3])
    tail = [["T", rng.choice("ab")]] if rng.random() < 0.7 else []
    lead = [["T", rng.choice("ab")]] if rng.random() < 0.2 else []
    first, second = ["V", NP, {feat: "?n"}], ["V", VP, {feat: "?n"}]
    prods = [["S", {}, [first, second] if rng.random() < 0.7 else [second, first]]]
    cur = NP
    for i in range(layers - 1):
        nxt = Mid + str(i)
        prods.append([cur, {feat: "?m"}, [["V", nxt, {feat: "?m"}]] + ([["T", rng.choice("ab")]] if rng.random() < 0.3 else [])])
        cur = nxt
    prods.append([cur, {feat: "?n"}, lead + [["V", Det, {feat: "?n"}]] + tail])
    r = rng.random()
    if r < 0.6:
        prods += [[Det, {feat: "x"}, [["T", t]]], [Det, {feat: "y"}, [["T", t]]]]
    elif r < 0.8:
        # one reading leaves the feature open
        prods += [[Det, {feat: rng.choice(ATOMS)}, [["T", t]]], [Det, {}, [["T", t]]], [Det, {feat: rng.choice(ATOMS)}, [["T", t], ["T", t]]]]
    else:
        # the ambiguity sits one level lower, below a unit production
        prods += [[Det, {feat: "?k"}, [["V", "Lex", {feat: "?k"}]]], ["Lex", {feat: "x"}, [["T", t]]], ["Lex", {feat: "y"}, [["T", t]]]]
    va, vb = rng.choice([("a", "b"), ("b", "a"), ("a", "a")])
    prods += [[VP, {feat: "x"}, [["T", va]]], [VP, {feat: "y"}, [["T", vb]] + ([["T", vb]] if va == vb else [])]]
    if rng.random() < 0.3:
        prods.append(["S", {}, [["V", "S", {}], ["V", VP, {feat: rng.choice(ATOMS)}]]])
    rng.shuffle(prods)
    return {"kind": "fcfg", "prods": prods, "via": rng.choice(["text", "text", "api"])}


def long_body_fcfg(rng):
    """a body of twelve to fourteen symbols with categories at positions 2-9 AND at positions 10 and later that must
    agree (and a feature-free variant): positions with two digits"""
    n = rng.randint(12, 14)
    body = []
    for i in range(n):
        if i in (2, 5, 10, n - 1) or rng.random() < 0.15:
            body.append(["V", rng.choice(["A", "B"]), {"f": "?a"} if i in (2, 10) else ({} if rng.random() < 0.5 else {"f": "?a"})])
        else:
            body.append(["T", rng.choice("ab")])
    free = rng.random() < 0.3
    if free:
        body = [[x[0], x[1], {}] if x[0] == "V" else x for x in body]
    fa_, fb_ = ({}, {}) if free else ({"f": "x"}, {"f": "y"})
    prods = [["S", {}, body], ["A", fa_, [["T", "a"]]], ["B", fb_, [["T", "b"]]], ["A", fb_ if not free else {}, [["T", "b"], ["T", "b"]]]]
    words = []
    for pick in range(4):
        w = []
        for x in body:
            if x[0] == "T":
                w.append(x[1])
            else:
                w.extend({"A": [["a"], ["b", "b"]], "B": [["b"], ["b"]]}[x[1]][(pick >> (len(w) % 2)) & 1])
        words.append(w)
    return {"kind": "fcfg", "prods": prods, "via": rng.choice(["text", "api"]), "long_words": words}


def bars_fcfg(rng):
    """alternatives on one line, each with its own atomic body features: S -> X[f=x] a | X[f=y] b | Y[g=x] X[f=y]"""
    if rng.random() < 0.5:
        # the head carries a variable that each alternative uses: X[f=?n] -> Y[f=?n] | Z[f=?n] Y[f=?n]
        ax, ay = ATOMS[0], ATOMS[1]
        prods = [["S", {}, [["V", "X", {"f": "?a"}], ["V", "V", {"f": "?a"}]]],
                 ["X", {"f": "?n"}, [["V", "Y", {"f": "?n"}]]],
                 ["X", {"f": "?n"}, [["V", "Z", {"f": "?n"}], ["V", "Y", {"f": "?n"}]]],
                 ["Y", {"f": ax}, [["T", "a"]]], ["Y", {"f": ay}, [["T", "b"]]],
                 ["Z", {"f": rng.choice(ATOMS)}, [["T", rng.choice("ab")]]],
                 ["V", {"f": ax}, [["T", "a"]]], ["V", {"f": ay}, [["T", "b"]]]]
        if rng.random() < 0.5:
            prods[1], prods[2] = prods[2], prods[1]
        return {"kind": "fcfg", "prods": prods, "via": "text", "bars": True}
    alts = []
    for _ in range(rng.randint(2, 3)):
        body = []
        for _ in range(rng.randint(1, 2)):
            if rng.random() < 0.6:
                body.append(["V", rng.choice(["X", "Y"]), {rng.choice("fg"): rng.choice(ATOMS)}])
            else:
                body.append(["T", rng.choice("ab")])
        if ["S", {}, body] not in alts:
            alts.append(["S", {}, body])
    prods = alts + [["X", {"f": "x", "g": rng.choice(ATOMS)}, [["T", "a"]]], ["X", {"f": "y", "g": rng.choice(ATOMS)}, [["T", "b"]]],
                    ["Y", {"f": rng.choice(ATOMS), "g": "x"}, [["T", "a"]]], ["Y", {"f": rng.choice(ATOMS), "g": "y"}, [["T", "b"]]]]
    return {"kind": "fcfg", "prods": prods, "via": "text", "bars": True}


def ftxt(d):
    return "[" + ",".join("%s=%s" % (k, ftxt(v) if isinstance(v, dict) else v) for k, v in d.items()) + "]" if d else ""


def case_ref(c):
    """the reference grammar straight from the case (what the text / the constructor arguments SAY), not from the
    library's reading of it"""
    def slots(d, k, prefix=()):
        out = {}
        for f, v in d.items():
            if isinstance(v, dict):
                out.update(slots(v, k, prefix + (f,)))
            elif v.startswith("?"):
                out[prefix + (f,)] = ("var", (k, v))
            else:
                out[prefix + (f,)] = ("atom", v)
        return out
    prods = []
    atoms = set()
    for k, (h, hf, body) in enumerate(c["prods"]):
        hs = slots(hf, k)
        b = [("V", x[1], slots(x[2], k)) if x[0] == "V" else ("T", x[1]) for x in body]
        prods.append((h, hs, b))
        for sl in [hs] + [x[2] for x in b if x[0] == "V"]:
            atoms |= {v[1] for v in sl.values() if v[0] == "atom"}
    close_paths(prods)
    gp, s0 = rfs.ground(prods, "S", sorted(atoms, key=repr) or ["x"])
    return rc.Grammar(gp, s0)


def canon_prod(p_):
    """a production of a case up to the names of its feature variables (numbered in order of appearance)"""
    names = {}

    def ren(d):
        return {k: (ren(v) if isinstance(v, dict) else
                    ("?%d" % names.setdefault(v, len(names)) if isinstance(v, str) and v.startswith("?") else v))
                for k, v in d.items()}
    h, hf, body = p_
    return json.dumps([h, ren(hf), [[x[0], x[1]] + ([ren(x[2])] if x[0] == "V" else []) for x in body]])


def vtxt(name, feats):
    """a category with its features; a name that does not start with a capital needs the explicit marker, which
    encloses the features too"""
    if name[:1].isupper():
        return name + ftxt(feats)
    return '"VAR:' + name + ftxt(feats) + '"'


INLINE_EPS = 0      # >0 while a text is rendered with epsilon symbols written INSIDE non-empty bodies


def body_text(body):
    toks = [(x[1] if x[0] == "T" else vtxt(x[1], x[2])) for x in body]
    if INLINE_EPS and toks:
        # an epsilon symbol inside a body is no symbol: A -> B $ C is A -> B C
        toks.insert((INLINE_EPS + len(toks)) % (len(toks) + 1), ["$", "epsilon"][INLINE_EPS % 2])
    return " ".join(toks) if toks else "epsilon"


def gamma_cats(c):
    """the same grammar with one category called like the parser's own dummy start variable"""
    m = {"A": "Gamma", "B": "Gamma'", "X": "Gamma", "Y": "BEGIN"}
    c["prods"] = [[m.get(h, h), hf, [[x[0], m.get(x[1], x[1])] + x[2:] if x[0] == "V" else x for x in body]]
                  for h, hf, body in c["prods"]]
    return c


def lower_cats(c):
    """the same grammar with lower-case category names (everything but the start symbol)"""
    m = {"A": "np", "B": "vp", "C": "det", "X": "x1", "Y": "y"}
    c["prods"] = [[m.get(h, h), hf, [[x[0], m.get(x[1], x[1])] + x[2:] if x[0] == "V" else x for x in body]]
                  for h, hf, body in c["prods"]]
    return c


def with_refs(prods):
    """the same productions with the (n) reference syntax: a variable that occurs at least twice in ONE flat
    constituent and nowhere else in its production is written f=(1), g=(1) instead of f=?u, g=?u"""
    out = []
    for h, hf, body in prods:
        groups = [hf] + [x[2] for x in body if x[0] == "V"]
        def flat_vars(d):
            return [v for v in d.values() if isinstance(v, str) and v.startswith("?")]
        def all_vars(d):
            vs = []
            for v in d.values():
                vs += all_vars(v) if isinstance(v, dict) else ([v] if isinstance(v, str) and v.startswith("?") else [])
            return vs
        total = {}
        for g_ in groups:
            for v in all_vars(g_):
                total[v] = total.get(v, 0) + 1

        def conv(d):
            local = {}
            for v in flat_vars(d):
                local[v] = local.get(v, 0) + 1
            ren = {}
            for v, n in local.items():
                if n >= 2 and total[v] == n:
                    ren[v] = "(%d)" % (len(ren) + 1)
            return {k: (ren.get(v, v) if isinstance(v, str) else v) for k, v in d.items()}
        out.append([h, conv(hf), [[x[0], x[1]] + ([conv(x[2])] if x[0] == "V" else []) for x in body]])
    return out


def to_text(prods, bars=False):
    """one production per line; with bars, consecutive productions with the same head text (and no variable in the
    head's features, which a line would share between its alternatives) are written as alternatives A -> x | y"""
    lines = []
    heads = []
    for h, hf, body in prods:
        ht = vtxt(h, hf)
        if bars and heads and heads[-1] == ht:
            # alternatives of one line share the line's variables; each alternative is used on its own, so a variable
            # name that occurs in several alternatives (and in the head) means the same as on separate lines
            lines[-1] += " | " + body_text(body)
        else:
            lines.append(ht + " -> " + body_text(body))
            heads.append(ht)
    return "\n".join(lines)


def build_fcfg(c):
    from pyformlang.fcfg import FCFG, FeatureStructure, FeatureProduction
    from pyformlang.cfg import Variable, Terminal
    if c["via"] == "text":
        global INLINE_EPS
        INLINE_EPS = c.get("inline_eps", 0)
        try:
            text = to_text(with_refs(c["prods"]) if c.get("refs") else c["prods"], bars=c.get("bars", False))
        finally:
            INLINE_EPS = 0
        return FCFG.from_text(text)
    prods = set()
    for h, hf, body in c["prods"]:
        variables = {}

        def mk(d):
            fs = FeatureStructure()
            for k, v in d.items():
                if isinstance(v, dict):
                    fs.add_content(k, mk(v))
                elif v.startswith("?"):
                    if v not in variables:
                        variables[v] = FeatureStructure()
                    fs.add_content(k, variables[v])
                else:
                    fs.add_content(k, FeatureStructure(v))
            return fs
        head_fs = mk(hf)
        b, bfs = [], []
        for x in body:
            if x[0] == "T":
                b.append(Terminal(x[1]))
                bfs.append(FeatureStructure())
            else:
                b.append(Variable(x[1]))
                bfs.append(mk(x[2]))
        prods.add(FeatureProduction(Variable(h), b, head_fs, bfs))
    return FCFG(start_symbol=Variable("S"), productions=prods)


def case_tags(c):
    t = []
    prods = c["prods"]
    if any(not p[2] for p in prods):
        t.append("has_epsilon_production")
    sk = [(p[0], tuple((x[0], x[1]) for x in p[2])) for p in prods]
    if len(sk) != len(set(sk)):
        t.append("equal_skeleton_productions")
    return t


def plan(tier, rng, sl, nslices, stats):
    cfg = TIERS[tier]
    for _ in range(cfg["unify"]):
        a, b = rand_spec(rng), rand_spec(rng)
        yield {"kind": "unify", "a": a, "b": b, "falsy": rng.random() < 0.15}
    for i in range(cfg["fcfg"]):
        c = [rand_fcfg, nested_fcfg, agreement_fcfg, epsilon_fcfg, rand_fcfg][i % 5](rng)
        if i % 10 == 9:
            yield bars_fcfg(rng)
            continue
        if i % 10 == 4:
            yield shared_struct_fcfg(rng)
            continue
        if i % 10 == 7:
            c = ambiguous_span_fcfg(rng)
        if i % 100 == 57:
            yield long_body_fcfg(rng)
            continue
        r_ = rng.random()
        if r_ < 0.15:
            c = lower_cats(c)
        elif r_ < 0.27:
            c = gamma_cats(c)
        if c["via"] == "text" and rng.random() < 0.2:
            c["inline_eps"] = rng.randint(1, 4)
        if c["via"] == "text" and rng.random() < 0.35:
            c["refs"] = True
        if c["via"] == "text" and rng.random() < 0.4:
            c["bars"] = True
            c["prods"] = sorted(c["prods"], key=lambda p_: (p_[0] + ftxt(p_[1])))     # equal heads next to each other
        yield c


def run_case(c, stats):
    if c["kind"] == "unify":
        if not typed_consistently(c["a"], c["b"]):
            core.LOG.discard("inconsistently_typed_pair")
            stats.cls("unify:discarded")
            return False
        stats.cls("unify")
        fz = bool(c.get("falsy"))
        A, B = build_fs(c["a"], fz), build_fs(c["b"], fz)
        call(A.unify, B)
        A2, B2 = build_fs(c["a"], fz), build_fs(c["b"], fz)
        call(B2.unify, A2)
        A3 = build_fs(c["a"], fz)
        call(A3.unify, build_fs(c["a"], fz))        # idempotence
        return bool(set(c["a"]) & set(c["b"]))
    tags = case_tags(c)
    stats.cls("fcfg:" + c["via"])
    for t in tags:
        stats.cls("tag:" + t)
    ok, g = call(build_fcfg, c)
    if not ok:
        with core.oracle_mode():
            core.report(PROP, "construct", "exception:" + type(g).__name__, {"text": to_text(c["prods"])}, tags)
        return False
    with core.oracle_mode():
        # every production of the text / of the set handed to the constructor is a production of the grammar
        want = {canon_prod(p_) for p_ in c["prods"]}
        core.LOG.count("C18.production_count")
        if len(g.productions) != len(want):
            core.report(PROP, "construct", "productions-lost" if len(g.productions) < len(want) else "productions-added",
                        {"text": to_text(c["prods"], bars=c.get("bars", False)), "kept": len(g.productions),
                         "written": len(want)}, tags + ["via:" + c["via"]])
        # ... and the grammar as the library read it generates what the text says
        try:
            lib_prods, lib_start, lib_atoms = fcfg_ref(g)
            want_ref = case_ref(c)
            if lib_start is not None:
                gp, s0 = rfs.ground(lib_prods, lib_start, sorted(lib_atoms, key=repr) or ["x"])
                core.LOG.count("C18.reading")
                if rc.Grammar(gp, s0).words(N) != want_ref.words(N):
                    core.report(PROP, "construct", "grammar-read-differs-from-what-was-written",
                                {"text": to_text(c["prods"], bars=c.get("bars", False))}, tags + ["via:" + c["via"]])
        except InconsistentTyping:
            pass
    nt = False
    with core.case(c, tags):
        for w in itertools.chain.from_iterable(itertools.product("ab", repeat=k) for k in range(N + 1)):
            ok, r = call(g.contains, values.word_form(w, len(w) + len(c["prods"])))
            nt = nt or (ok and bool(r))
        for w in c.get("long_words", ()):
            ok, r = call(g.contains, list(w))              # long sentences (bodies of a dozen symbols)
            call(g.contains, list(w[:-1]))
            nt = nt or (ok and bool(r))
    return nt
