"""C03 - Boolean and rational operations on automata."""
from vf import core, extract
from vf.gen import fa as gfa
from vf.ref import nfa as rn
from vf.worker import call
from vf.props.c01 import str_collision

PROP = "C03"
RULE = ("single eps-NFA/NFA/DFA operands and ordered pairs (equal / overlapping / disjoint alphabets, colliding state "
        "names across operands, the same object as both operands, receivers without start state or with several, "
        "pair-name look-alikes 'a; b', a state called 'TrashNode'); every call of get_intersection / get_complement / "
        "get_difference / reverse / union / concatenate / kleene_star and operator forms is compared by exact "
        "language equivalence with the reference operation on the extracted operands; operands must be unchanged. "
        "Non-trivial: both operands have >=1 transition and a non-empty, non-universal language for at least one; "
        "distinct = canonical hash of the pair.")
ASSUMPTIONS = ["union/concatenate/kleene_star go through regular expressions: on operands whose symbol values are not regex tokens they are driven too, and fail as the known finding C03-rational-operations-spell-symbols-as-regex-text says"]
TIERS = {
    "quick": {"workers": 4, "random": 1200},
    "thorough": {"workers": 16, "random": 12000, "pytest": True, "hard_timeout": 3000},
}
MIN = {"quick": {"C03.EpsilonNFA.get_intersection": 500, "C03.EpsilonNFA.get_complement": 500,
                 "C03.EpsilonNFA.get_difference": 500, "C03.EpsilonNFA.reverse": 500,
                 "C03.Regexable.union": 200, "C03.Regexable.concatenate": 200, "C03.Regexable.kleene_star": 200},
       "thorough": {"C03.EpsilonNFA.get_intersection": 10000, "C03.EpsilonNFA.get_complement": 10000}}


def anchors():
    from pyformlang.finite_automaton import EpsilonNFA
    from pyformlang.finite_automaton import epsilon_nfa
    return [EpsilonNFA.get_intersection, EpsilonNFA.get_complement, EpsilonNFA.get_difference,
            EpsilonNFA.reverse, epsilon_nfa.combine_state_pair]


def pair_name_collision(ra, rb):
    """combine_state_pair names (x, y) as str(x)+'; '+str(y): do two distinct pairs collide?"""
    names = set()
    for x in ra.states:
        for y in rb.states:
            n = str(x) + "; " + str(y)
            if n in names:
                return True
            names.add(n)
    return False


def tags_one(r, who="recv"):
    t = []
    if not r.is_deterministic():
        t.append(who + "_nondeterministic")
    if not r.starts:
        t.append(who + "_no_start")
    if len(r.starts) > 1:
        t.append(who + "_multi_start")
    if any(str(s) == "TrashNode" for s in r.states):
        t.append(who + "_has_TrashNode")
    if str_collision(r):
        t.append("state_str_collision")
    if any(not regex_token(a) for a in r.alpha):
        t.append("symbol_not_a_regex_token")
    return t


def regex_token(a):
    """a symbol value that a regular expression can spell: a non-empty text without blanks and operator characters that
    is not one of the spellings of the empty word"""
    return isinstance(a, str) and a != "" and a not in ("epsilon", "$") and not any(ch in a for ch in " .|+*()\\$\t\n")


def is_fa(x):
    from pyformlang.finite_automaton import FiniteAutomaton
    return isinstance(x, FiniteAutomaton)


def pre1(self, args, kwargs):
    return (extract.fa(self),)


def pre2(self, args, kwargs):
    other = args[0]
    if not is_fa(other):
        return None
    return extract.fa(self), extract.fa(other)


def frame(sub, st, self, args, tags):
    now = extract.fa(self)
    if now.key() != st[0].key():
        core.report(PROP, sub, "operand-mutated", {"which": "receiver"}, tags)
    if len(st) > 1 and args[0] is not self:
        if extract.fa(args[0]).key() != st[1].key():
            core.report(PROP, sub, "operand-mutated", {"which": "argument"}, tags)


def make_post(sub, refop, binary):
    def post(st, self, args, kwargs, result, exc):
        if st is None:
            return
        tags = tags_one(st[0])
        if binary:
            tags += [t for t in tags_one(st[1], "arg") if t not in tags]
            if pair_name_collision(st[0], st[1]):
                tags.append("pair_name_collision")
            if args[0] is self:
                tags.append("same_object")
        if exc is not None:
            core.report(PROP, sub, "exception:" + type(exc).__name__, {"msg": str(exc)[:100]}, tags)
            return
        frame(sub, st, self, args, tags)
        exp = refop(*st)
        res = extract.fa(result)
        w = rn.equiv(exp, res)
        if w is not None:
            core.report(PROP, sub, "wrong-accept" if res.accepts(w) else "wrong-reject", {"word": w}, tags)
    return post


def install():
    from pyformlang.finite_automaton import EpsilonNFA
    from pyformlang.finite_automaton.regexable import Regexable
    m = core.monitored
    m(EpsilonNFA, "get_intersection", PROP, pre2, make_post("intersection", rn.intersection, True))
    m(EpsilonNFA, "get_complement", PROP, pre1, make_post("complement", lambda a: rn.complement(a, a.alpha), False))
    m(EpsilonNFA, "get_difference", PROP, pre2, make_post("difference", rn.difference, True))
    m(EpsilonNFA, "reverse", PROP, pre1, make_post("reverse", rn.reverse, False))
    m(Regexable, "union", PROP, pre2, make_post("union", rn.union, True))
    m(Regexable, "concatenate", PROP, pre2, make_post("concatenate", rn.concat, True))
    m(Regexable, "kleene_star", PROP, pre1, make_post("kleene_star", rn.star, False))
    # operator forms: judged by the same oracles (they are separate entry points)
    m(EpsilonNFA, "__and__", PROP, pre2, make_post("intersection", rn.intersection, True))
    m(EpsilonNFA, "__neg__", PROP, pre1, make_post("complement", lambda a: rn.complement(a, a.alpha), False))
    m(EpsilonNFA, "__sub__", PROP, pre2, make_post("difference", rn.difference, True))
    m(EpsilonNFA, "__invert__", PROP, pre1, make_post("reverse", rn.reverse, False))


def plan(tier, rng, sl, nslices, stats):
    cfg = TIERS[tier]
    if sl == 0:
        # scale cases (one worker): a product with 12 x 13 reachable pairs; operands of 12-14 states with long names
        a = gfa.counter_case(12, vc="str")
        b = gfa.counter_case(13, vc="str")
        yield {"a": a, "b": b, "token": False}
        a2 = gfa.large_case(rng, kinds=("enfa",), vcs=("longnames",))
        a2["token"] = False
        b2 = gfa.large_case(rng, kinds=("nfa",), vcs=("longnames",))
        b2["token"] = False
        yield {"a": a2, "b": b2, "token": False}
    for i in range(cfg["random"]):
        if i % 60 == 31:
            # an ordinary-sized operand (ten to fourteen states) against a small one, in both positions; the rational
            # operations (which go through to_regex) are left to the small cases
            a = gfa.large_case(rng, vcs=("int", "str"))
            a["token"] = False
            b = gfa.random_case(rng, max_states=4, max_syms=2, vcs=[a["vc"]], token=True)
            b["token"] = False
            yield {"a": a, "b": b, "token": False} if i % 120 == 31 else {"a": b, "b": a, "token": False}
            continue
        token = rng.random() < 0.4
        vcs = ["int", "str", "merged"] if token else None
        if token and rng.random() < 0.25:
            a = gfa.random_loop_case(rng)
        else:
            a = gfa.random_case(rng, max_states=4, max_syms=3, vcs=vcs, token=token)
        r = rng.random()
        if r < 0.1:
            b = None      # same object twice
        else:
            b = gfa.random_case(rng, max_states=4, max_syms=3, vcs=[a["vc"]] if a["vc"] in ("tuple", "inject", "mixed") else
                                ["int", "str", "merged"], token=token)
            if token and rng.random() < 0.2:
                b = gfa.random_loop_case(rng)
            if b["vc"] == "inject":
                b["sperm"] = a["sperm"][:] + list(range(len(a["sperm"]), 5))
                a["sperm"] = b["sperm"]
            if rng.random() < 0.3:
                # disjoint / shifted alphabets
                sh = rng.choice([1, 3])
                b["trans"] = [[p, (x + sh if x >= 0 else x), q] for p, x, q in b["trans"]]
                b["k"] += sh
        yield {"a": a, "b": b, "token": token}


def sym_ids(c):
    return {t[1] for t in c["trans"] if t[1] >= 0}


def run_case(c, stats):
    A = gfa.build(c["a"])
    B = A if c["b"] is None else gfa.build(c["b"])
    stats.cls("token" if c["token"] else "anysym")
    stats.cls("same_object" if c["b"] is None else "pair")
    with core.oracle_mode():
        ra, rb = extract.fa(A), extract.fa(B)
        nt = bool(ra.trans) and bool(rb.trans) and (
            (not ra.is_empty() and not rn.complement(ra).is_empty()) or
            (not rb.is_empty() and not rn.complement(rb).is_empty()))
        for t in tags_one(ra) + tags_one(rb, "arg"):
            stats.cls("tag:" + t)
    call(A.get_intersection, B)
    call(A.get_complement)
    call(A.get_difference, B)
    call(B.get_difference, A)
    call(A.reverse)
    call(lambda: A & B)
    call(lambda: -A)
    call(lambda: A - B)
    call(lambda: ~A)
    if c["token"]:
        call(A.union, B)
        call(A.concatenate, B)
        call(A.kleene_star)
        call(B.concatenate, A)
    elif (len(c["a"]["trans"]) + len(ra.states)) % 5 == 1:
        # symbol values that are not regular-expression tokens (ints, tuples, the empty text): see known finding
        stats.cls("rational_ops_on_any_symbols")
        call(A.union, B)
        call(A.concatenate, B)
        call(A.kleene_star)
    if (len(c["a"]["trans"]) + len(ra.states)) % 4 == 0:
        # a second operation on each result: what a result says about itself (alphabet, states, start and final
        # states) is what the next operation works from
        firsts = [lambda: A.get_intersection(B), A.get_complement, lambda: A.get_difference(B), A.reverse]
        if c["token"]:
            firsts += [lambda: A.union(B), lambda: A.concatenate(B), A.kleene_star]
        stats.cls("second_operation")
        for f in firsts:
            ok, r = call(f)
            if not ok or len(r.states) > 8 or r.get_number_transitions() > 24:
                continue
            call(r.get_complement)
            call(r.reverse)
            call(r.get_intersection, A)
            call(B.get_difference, r)
    if c["a"].get("edits"):
        # the receiver is edited through its public mutators and the operations are asked again (same object)
        gfa.apply_edits(A, c["a"])
        stats.cls("edited")
        call(A.get_complement)
        call(A.reverse)
        call(A.get_intersection, B)
        call(B.get_difference, A)
        if c["token"]:
            call(A.union, B)
            call(A.kleene_star)
            call(B.concatenate, A)
    return nt
