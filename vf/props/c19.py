"""C19 - objects behave as values: answers never depend on call history or aliasing.

History workload + event log + offline checker:
  * a pool of objects with *provenance* (base recipe or expression over other pool entries);
  * a seeded random history of public queries / conversions / binary operations / mutations of returned objects;
  * every step is logged as an event {step, target, op, args, answer (normalised), kind};
  * frame monitor (online): the structure signature of every pool object is compared before/after each step
    (only the explicitly mutated object may change);
  * offline checker over the log: every logged answer is compared with the answer of the *fresh twin*
    (provenance re-evaluated on freshly built base objects, nothing else called in between).
"""
import itertools
import json
import random

from vf import core, extract
from vf.gen import cfg as gcfg
from vf.gen import fa as gfa
from vf.gen import fst as gfst
from vf.gen import pda as gpda
from vf.ref import nfa as rn
from vf.ref import regexsem as rs
from vf.worker import call

PROP = "C19"
TECHNIQUE = "history monitor: seeded call histories over an object pool, online frame check of every object's structure signature, offline event-log checker comparing each answer with a fresh twin rebuilt from provenance"
RULE = ("seeded random histories (10-40 steps) over an object pool (automata of the three classes, regexes, CFGs, "
        "PDAs, FSTs, indexed grammars) of public queries, conversions, binary operations with another pool object or "
        "itself, conversions of conversions, and mutations of returned objects through their public mutators; plus "
        "targeted histories for each cache named in the anchors (all orders of the CFG analyses, regex used as "
        "sub-expression before/after accepts, mutated to_epsilon_nfa()/to_deterministic()/to_dict() results, repeated "
        "intersection/to_cfg over shared State objects, repeated IndexedGrammar.is_empty). Every step is an event; "
        "online: structure signatures of all pool objects before/after each step; offline: every logged answer vs the "
        "answer of a fresh twin rebuilt from provenance. Non-trivial: history with >=6 answered steps of >=3 kinds; "
        "distinct = (seed, script)."
        ' Later additions: a feature grammar and an epsilon-chain automaton in the pool, epsilon-edge mutations between queries, runs of repeated contains(); many grammars with repeated symbols in a body, each asked its analyses in a random order; many one- and two-state automata (an epsilon move next to a symbol) put through their conversions in a random order.')
ASSUMPTIONS = ["attribute accessors (.states, .productions, .transitions) return live containers by documented design and "
               "are not conversions", "language-valued answers are normalised to bounded word sets (<=3-4 symbols)"]
TIERS = {
    "quick": {"workers": 4, "random": 140, "targeted": 1},
    "thorough": {"workers": 16, "random": 1500, "targeted": 4, "pytest": False, "hard_timeout": 3300},
}
HARNESS_FAULT_DISCARDS = ["script_step_without_target", "script_op_not_applicable", "script_mutation_not_applicable"]
MIN = {"quick": {"C19.events": 5000, "C19.twin_comparisons": 5000, "C19.frame_checks": 5000, "C19.mutations": 150,
                 "C19.returned_objects_mutated": 100},
       "thorough": {"C19.events": 100000, "C19.twin_comparisons": 100000}}


def anchors():
    from pyformlang.cfg import CFG
    from pyformlang.regular_expression import Regex
    from pyformlang.pda.cfg_variable_converter import CFGVariableConverter
    from pyformlang.indexed_grammar import IndexedGrammar
    return [CFG._get_generating_or_nullable, CFG._set_impacts_and_remaining_lists, Regex._process_to_enfa_son,
            CFGVariableConverter._get_state_index, IndexedGrammar.is_empty]


def install():
    # C19 has no per-method contract: the monitor is the history driver (frame check) + the offline log checker.
    from pyformlang.fst import FST
    core.budget_funcs([FST.translate])


# ---------------------------------------------------------------- building and provenance

def build_base(kind, case):
    if kind == "fa":
        return gfa.build(case)
    if kind == "regex":
        from pyformlang.regular_expression import Regex
        return Regex(case)
    if kind == "cfg":
        return gcfg.build(case)
    if kind == "pda":
        return gpda.build(case)
    if kind == "fst":
        return gfst.build(case)
    if kind == "ig":
        from vf.props.c17 import tolib
        return tolib([tuple(r) for r in case], 7)
    if kind == "fcfg":
        from vf.props.c18 import build_fcfg
        return build_fcfg(case)          # a feature grammar is a CFG for kind_of(): queried through the same ops
    raise ValueError(kind)


WORDS = [[], ["a"], ["b"], ["a", "b"], ["a", "a"], ["b", "a", "b"], ["a", "b", "a"], ["a", "b", "b"], ["a", "a", "b"],
         ["b", "b"], ["a", "b", "a", "b"], ["ab"], ["a", "ab"], ["ab", "b"]]     # "ab": one symbol spelled like two


def kind_of(obj):
    from pyformlang.finite_automaton import FiniteAutomaton
    from pyformlang.regular_expression import Regex
    from pyformlang.cfg import CFG
    from pyformlang.pda import PDA
    from pyformlang.fst import FST
    from pyformlang.indexed_grammar import IndexedGrammar
    for k, c in (("fa", FiniteAutomaton), ("regex", Regex), ("cfg", CFG), ("pda", PDA), ("fst", FST),
                 ("ig", IndexedGrammar)):
        if isinstance(obj, c):
            return k
    if isinstance(obj, dict):
        return "dict"
    return None


# op catalogue: name -> (arity kinds, callable(obj, *others, arg))   arg drawn from WORDS index or small int
def apply_op(name, obj, others, arg):
    w = WORDS[arg % len(WORDS)]
    if name == "accepts":
        return obj.accepts(list(w))
    if name == "contains":
        return obj.contains(list(w))
    if name == "translate":
        # a transducer in the pool may have an epsilon cycle that writes (outside C16's quantifier, but reachable
        # through star/concatenation): bounded by logical steps, the same bound on the real object and on the twin
        try:
            with core.step_budget(20000):
                return sorted(set(tuple(x) for x in itertools.islice(obj.translate(list(w)), 200)))
        except core.StepBudgetExceeded:
            return "step-budget-exceeded"
    if name == "get_accepted_words":
        return sorted(tuple(s.value for s in x) for x in itertools.islice(obj.get_accepted_words(2), 200))
    if name == "get_words":
        return sorted(tuple(s.value for s in x) for x in itertools.islice(obj.get_words(3), 200))
    if name == "share_productions":
        # a grammar built by the user from the Production objects of two existing grammars (shared Variable objects)
        from pyformlang.cfg import CFG
        return CFG(start_symbol=obj.start_symbol, productions=list(obj.productions) + list(others[0].productions))
    if name == "eq":
        return obj == others[0]
    if name == "str":
        return str(obj)
    if name == "to_text":
        # names of synthesised variables are not demanded to be history independent: the answer is compared by
        # shape (number of productions and body lengths), the language of derived grammars by their own events
        lines = [l for l in obj.to_text().splitlines() if l.strip()]
        return sorted(len(l.split("->", 1)[1].split()) for l in lines)
    if name in ("is_equivalent_to", "get_intersection", "get_difference", "union", "concatenate", "intersection"):
        return getattr(obj, name)(others[0])
    return getattr(obj, name)()


OPS = {
    "fa": [("accepts", 0), ("accepts", 0), ("is_empty", 0), ("is_deterministic", 0), ("is_acyclic", 0),
           ("get_accepted_words", 0), ("is_equivalent_to", "fa"), ("eq", "fa"), ("to_deterministic", 0),
           ("remove_epsilon_transitions", 0), ("minimize", 0), ("copy", 0), ("reverse", 0), ("get_complement", 0),
           ("get_intersection", "fa"), ("get_difference", "fa"), ("union", "fa"), ("concatenate", "fa"),
           ("kleene_star", 0), ("to_regex", 0), ("to_fst", 0), ("to_dict", 0), ("get_number_transitions", 0)],
    "regex": [("accepts", 0), ("accepts", 0), ("to_epsilon_nfa", 0), ("to_cfg", 0), ("union", "regex"),
              ("concatenate", "regex"), ("kleene_star", 0), ("str", 0), ("get_number_symbols", 0)],
    "cfg": [("contains", 0), ("contains", 0), ("generate_epsilon", 0), ("is_empty", 0), ("is_finite", 0),
            ("get_generating_symbols", 0), ("get_nullable_symbols", 0), ("get_reachable_symbols", 0),
            ("to_normal_form", 0), ("remove_useless_symbols", 0), ("remove_epsilon", 0),
            ("eliminate_unit_productions", 0), ("get_words", 0), ("union", "cfg"), ("concatenate", "cfg"),
            ("get_closure", 0), ("reverse", 0), ("intersection", "fa"), ("intersection", "regex"), ("to_pda", 0),
            ("is_normal_form", 0), ("to_text", 0), ("share_productions", "cfg"), ("intersection", "fa")],
    "pda": [("to_cfg", 0), ("to_final_state", 0), ("to_empty_stack", 0), ("intersection", "fa"), ("to_dict", 0),
            ("get_number_transitions", 0)],
    "fst": [("translate", 0), ("translate", 0), ("union", "fst"), ("concatenate", "fst"), ("kleene_star", 0),
            ("get_number_transitions", 0)],
    "ig": [("is_empty", 0), ("is_empty", 0), ("remove_useless_rules", 0)],
    "dict": [],
}

MUTATIONS = {
    "fa": ["add_final_all", "add_transition_new", "remove_finals", "add_start_new", "add_eps_final_to_start",
           "remove_eps_all", "extend_eps", "cut_eps_second"],
    "pda": ["add_transition_new", "add_final_new"],
    "fst": ["add_transition_new", "add_final_all"],
    "dict": ["clear", "edit_inner"],
}


def mutate(kind, obj, how):
    if kind == "fa":
        if how == "add_final_all":
            for s in list(obj.states):
                obj.add_final_state(s)
        elif how == "add_transition_new":
            # role-based (every start state), never name-based: names of synthesised states are not demanded
            # to be history independent (a Regex numbers its states with a running counter)
            for src in list(obj.start_states):
                obj.add_transition(src, "a", "mut_state")
            obj.add_final_state("mut_state")
        elif how == "remove_finals":
            for s in list(obj.final_states):
                obj.remove_final_state(s)
        elif how == "add_start_new":
            obj.add_start_state("mut_start")
            obj.add_final_state("mut_start")
        elif how == "add_eps_final_to_start":
            # epsilon edges leaving states that other states may already reach by epsilon moves
            for f in list(obj.final_states):
                for s0 in list(obj.start_states):
                    try:
                        obj.add_transition(f, "epsilon", s0)
                    except Exception:      # noqa  (classes without epsilon moves refuse)
                        return
        elif how == "extend_eps":
            # an epsilon edge LEAVING a state that is itself entered by an epsilon edge (closures of the predecessors
            # change without their own edges being touched)
            from pyformlang.finite_automaton import Epsilon
            for (p_, a_, q_) in [t for t in obj if isinstance(t[1], Epsilon)]:
                for f in list(obj.final_states):
                    obj.add_transition(q_, "epsilon", f)
        elif how == "cut_eps_second":
            from pyformlang.finite_automaton import Epsilon
            eps = [t for t in obj if isinstance(t[1], Epsilon)]
            entered = {t[2] for t in eps}
            for (p_, a_, q_) in eps:
                if p_ in entered:
                    obj.remove_transition(p_, a_, q_)
        elif how == "remove_eps_all":
            from pyformlang.finite_automaton import Epsilon
            for (p_, a_, q_) in [t for t in obj if isinstance(t[1], Epsilon)]:
                obj.remove_transition(p_, a_, q_)
    elif kind == "pda":
        if how == "add_transition_new":
            obj.add_transition(obj.start_state, "a", "MUTZ", "mut_state", [])
        else:
            obj.add_final_state("mut_final")
    elif kind == "fst":
        if how == "add_transition_new":
            obj.add_transition("mut_a", "a", "mut_b", ["mut"])
            obj.add_start_state("mut_a")
            obj.add_final_state("mut_b")
        else:
            for s in list(obj.states):
                obj.add_final_state(s)
    elif kind == "dict":
        if how == "edit_inner":
            # the containers INSIDE the returned dictionary (per-state dictionaries, successor sets / lists) are edited
            for v in list(obj.values()):
                inner = list(v.values()) if isinstance(v, dict) else [v]
                for x in inner:
                    if isinstance(x, set):
                        x.clear()
                    elif isinstance(x, list):
                        del x[:]
                if isinstance(v, dict):
                    v.clear()
        else:
            obj.clear()


# ---------------------------------------------------------------- normal forms and signatures

def signature(obj):
    """structure signature through the public API (value snapshot)"""
    k = kind_of(obj)
    if k == "fa":
        r = extract.fa(obj)
        return ("fa", type(obj).__name__, frozenset(map(repr, r.states)), frozenset(map(repr, r.starts)),
                frozenset(map(repr, r.finals)), frozenset(map(repr, r.trans)))
    if k == "cfg":
        r = extract.cfg(obj)
        return ("cfg", frozenset(map(repr, r.prods)), repr(r.start), frozenset(map(repr, r.variables)),
                frozenset(map(repr, r.terminals)))
    if k == "pda":
        r = extract.pda(obj)
        return ("pda", repr(r.key()), frozenset(map(repr, r.states)))
    if k == "fst":
        return ("fst", repr(extract.fst(obj).key()))
    if k == "regex":
        return ("regex", obj.get_tree_str())
    if k == "ig":
        from vf.props.c17 import ig_rules
        rules, start = ig_rules(obj)
        return ("ig", frozenset(map(repr, rules)), start)
    if k == "dict":
        return ("dict", repr(sorted(map(repr, obj.items()))))
    return ("other", repr(obj))


def normal(ans):
    """normalise an answer to JSON-able data that is equal for equal behaviour"""
    if isinstance(ans, BaseException):
        return ["exc", type(ans).__name__]
    k = kind_of(ans)
    if k == "fa":
        r = extract.fa(ans)
        al = sorted(r.alpha, key=repr)[:3]
        return ["fa", extract.fa_kind(ans), sorted(map(repr, r.alpha)),
                sorted(repr(w) for w in rn.all_words(al, 3) if r.accepts(w)), r.is_empty()]
    if k == "cfg":
        r = extract.cfg(ans)
        return ["cfg", sorted(repr(w) for w in r.words(3)), r.is_cnf(), len(r.prods) == 0]
    if k == "pda":
        r = extract.pda(ans)
        al = sorted(r.alpha, key=repr)[:2]
        ws = list(rn.all_words(al, 3))
        return ["pda", sorted(repr(w) for w in ws if r.accepts_final(w)),
                sorted(repr(w) for w in ws if r.accepts_empty_stack(w))]
    if k == "fst":
        from vf.ref import fst as rf
        r = extract.fst(ans)
        out = []
        if r.eps_cycle_writes():
            return ["fst", "writing-eps-cycle"]
        for w in rn.all_words(sorted(r.alpha, key=repr)[:2], 2):
            try:
                out.append([repr(w), sorted(map(repr, r.relation(w, cap=5000)))])
            except rf.GaveUp:
                out.append([repr(w), "?"])
        return ["fst", out]
    if k == "regex":
        try:
            r = extract.fa(ans.to_epsilon_nfa())
        except Exception as e:
            return ["regex", "unusable:" + type(e).__name__]
        al = sorted(r.alpha, key=repr)[:3]
        return ["regex", sorted(repr(w) for w in rn.all_words(al, 3) if r.accepts(w))]
    if k == "ig":
        from vf.props.c17 import ig_rules, oracle
        rules, start = ig_rules(ans)
        try:
            return ["ig", oracle(rules, start)]
        except core.OracleGaveUp:
            return ["ig", len(rules)]
    if k == "dict":
        return ["dict", len(ans)]
    if isinstance(ans, (set, frozenset)):
        # symbol sets: names of synthesised variables (numbered by converters) are not demanded to be history
        # independent - compare the number of variables and the terminals by value
        from pyformlang.cfg import Variable
        nvar = sum(1 for x in ans if isinstance(x, Variable))
        rest = sorted(type(x).__name__ + ":" + repr(getattr(x, "value", x)) for x in ans if not isinstance(x, Variable))
        return ["set", nvar, rest]
    if isinstance(ans, (list, tuple)):
        return ["list", [repr(x) for x in ans]]
    if isinstance(ans, (bool, int, str)) or ans is None:
        return ["val", ans]
    return ["repr", type(ans).__name__]


# ---------------------------------------------------------------- provenance evaluation

def rebuild(pool, ref, memo):
    """fresh twin of pool entry `ref = [entry id, number of mutations applied]`: its origin expression
    re-evaluated on freshly built base objects, then its first n mutations.  Twins are per entry: two entries with
    the same expression are two objects, the same entry used twice is one object (as in the real history)."""
    eid, nmut = ref
    key = (eid, nmut)
    if key in memo:
        return memo[key]
    e = pool[eid]
    org = e["origin"]
    if org[0] == "base":
        obj = build_base(org[1], org[2])
    else:
        target = rebuild(pool, org[2], memo)
        others = [rebuild(pool, r, memo) for r in org[3]]
        obj = apply_op(org[1], target, others, org[4])
    for m in e["muts"][:nmut]:
        mutate(kind_of(obj), obj, m)
    memo[key] = obj
    return obj


# ---------------------------------------------------------------- history driver

def base_pool(rng, cfg4=None, fa0=None):
    pool = []

    def add(kind, case):
        pool.append({"origin": ["base", kind, case], "muts": [], "tainted": False})
    f0 = gfa.random_case(rng, max_states=2 if fa0 else 3, max_syms=2, vcs=["int", "str"], token=True)
    if fa0 == "parallel":
        # two states, the second one final, an epsilon move next to a symbol between the same two states
        f0.pop("edits", None)
        f0.pop("eps_only", None)
        a_ = rng.randrange(2)
        tr = [[0, a_, 1], [0, -1, 1]] if rng.random() < 0.7 else [[1, a_, 0], [1, -1, 0], [0, 1 - a_, 1]]
        for _ in range(rng.randint(0, 2)):
            t_ = [rng.randrange(2), rng.randrange(2), rng.randrange(2)]
            if t_ not in tr:
                tr.append(t_)
        f0.update(kind="enfa", n=2, k=2, start=[0], final=[1], trans=tr)
    add("fa", f0)
    add("fa", gfa.random_case(rng, max_states=3, max_syms=2, kinds=("dfa",), vcs=["int"], token=True))
    add("regex", rs.render(rs.gen_ast(rng, 2, escaped=0), rng).replace("cd", "a").replace("x1", "b"))
    add("regex", rs.render(rs.gen_ast(rng, 1, escaped=0), rng).replace("cd", "b").replace("x1", "a"))
    r_ = rng.random()
    if cfg4:
        add("cfg", {"repeat": gcfg.repeat_case, "dense": gcfg.dense_case, "two_route": gcfg.two_route_case}[cfg4](rng))
    elif r_ < 0.3:
        add("cfg", gcfg.two_route_case(rng))
    elif r_ < 0.6:
        add("cfg", gcfg.repeat_case(rng))
    else:
        add("cfg", gcfg.random_case(rng, max_vars=3, max_terms=2, max_prods=5, max_body=3, vcs=["str"]))
    add("cfg", gcfg.random_case(rng, max_vars=2, max_terms=2, max_prods=4, max_body=2, vcs=["str", "lower"]))
    add("pda", gpda.random_case(rng, max_states=2, max_trans=4, max_push=2, vcs=["str"]))
    add("fst", gfst.random_case(rng, max_states=2, max_trans=4, vcs=["str"]))
    from vf.props.c17 import rand_rules
    add("ig", [list(r) for r in rand_rules(rng, max_n=3)][:5])
    e1 = gfa.random_case(rng, max_states=3, max_syms=2, kinds=("enfa",), vcs=["int"], token=True)
    e1["final"] = []
    e1.pop("edits", None)
    add("fa", e1)                                   # 9: empty language (no final state)
    e2 = gfa.random_case(rng, max_states=2, max_syms=2, kinds=("dfa",), vcs=["str"], token=True)
    e2["final"] = [e2["n"]]
    e2["n"] += 1
    e2.pop("edits", None)
    add("fa", e2)                                   # 10: empty language (final state unreachable)
    e3 = gfa.random_case(rng, max_states=4, max_syms=2, kinds=("enfa",), vcs=["int", "str"], token=True)
    e3.pop("edits", None)
    e3.pop("eps_only", None)
    n3 = max(e3["n"], 3)
    e3["n"] = n3
    e3["trans"] = [t for t in e3["trans"] if t[1] != -1][:4] + [[0, -1, 1], [1, -1, 2]] + \
        ([[2, -1, 0]] if rng.random() < 0.3 else [])
    e3["start"] = [0]
    e3["final"] = [rng.randrange(n3)]
    from vf.props import c18
    add("fcfg", [c18.agreement_fcfg, c18.nested_fcfg, c18.rand_fcfg, c18.epsilon_fcfg][rng.randrange(4)](rng))   # 11
    add("fa", e3)                                   # 12: epsilon chain 0 -> 1 -> 2 from the start state
    add("cfg", gcfg.wide_case(rng))                 # 13: forty variables, start symbol nullable through a long way
    return pool


def script_random(rng, pool_kinds_fn, length):
    """steps are chosen lazily (they depend on the pool), so the script is driven by the rng"""
    return None


def run_history(c, stats):
    rng = random.Random(c["seed"])
    pool = base_pool(rng, c.get("cfg4"), c.get("fa0"))
    for e in pool:
        e["obj"] = build_base(e["origin"][1], e["origin"][2])
        e["kind"] = {"fcfg": "cfg"}.get(e["origin"][1], e["origin"][1])      # a feature grammar is queried as a grammar
        e["base"] = True
    events = []
    nbase = len(pool)
    scripted = c.get("script")
    steps = len(scripted) if scripted else c.get("length", 20)
    kinds_done = set()
    answered = 0
    for step in range(steps):
        if scripted:
            st = scripted[step]
            def _res(x):
                return nbase + int(x[1:]) if isinstance(x, str) else x
            ti, name, oi, arg, mut = _res(st["target"]), st.get("op"), [_res(x) for x in st.get("others", [])], \
                st.get("arg", 0), st.get("mutate")
            if ti >= len(pool) or any(i >= len(pool) for i in oi):
                core.LOG.discard("script_step_without_target")
                continue
            if mut and mut not in MUTATIONS.get(pool[ti]["kind"], []):
                core.LOG.discard("script_mutation_not_applicable")
                continue
            if name and not any(name == o[0] for o in OPS.get(pool[ti]["kind"], [])):
                core.LOG.discard("script_op_not_applicable")
                continue
        else:
            ti = rng.randrange(len(pool))
            mut = None
            k = pool[ti]["kind"]
            if not pool[ti].get("base") and k in MUTATIONS and rng.random() < 0.25:
                mut = rng.choice(MUTATIONS[k])
                name, oi, arg = None, [], 0
            else:
                if not OPS.get(k):
                    continue
                name, other_kind = rng.choice(OPS[k])
                arg = rng.randrange(14)
                oi = []
                if other_kind:
                    cands = [i for i, e in enumerate(pool) if e["kind"] == other_kind]
                    if not cands:
                        continue
                    oi = [ti if rng.random() < 0.2 and pool[ti]["kind"] == other_kind else rng.choice(cands)]
        entry = pool[ti]
        with core.oracle_mode():
            before = [signature(e["obj"]) for e in pool]
        if mut:
            ok, ans = call(mutate, entry["kind"], entry["obj"], mut)
            entry["muts"].append(mut)
            core.LOG.count("C19.mutations")
            if not entry.get("base"):
                core.LOG.count("C19.returned_objects_mutated")
            ev = {"step": step, "target": ti, "mutation": mut, "ok": ok}
            changed_allowed = {ti}
        else:
            others = [pool[i]["obj"] for i in oi]
            tref = [ti, len(entry["muts"])]
            orefs = [[i, len(pool[i]["muts"])] for i in oi]
            tainted = entry["tainted"] or any(pool[i]["tainted"] for i in oi)
            ok, ans = call(apply_op, name, entry["obj"], others, arg)
            with core.oracle_mode():
                try:
                    norm = normal(ans)
                except Exception as e:
                    norm = ["unnormalisable", type(e).__name__]
            ev = {"step": step, "target": ti, "op": name, "others": oi, "arg": arg, "answer": norm,
                  "tref": tref, "orefs": orefs, "kind": entry["kind"], "tainted": tainted}
            kinds_done.add(name)
            answered += 1
            changed_allowed = set()
            k = kind_of(ans) if ok else None
            if k is not None and len(pool) < nbase + 5:
                # the result joins the pool (conversions of conversions; may be mutated later)
                same = [i for i, e in enumerate(pool) if ans is e["obj"]]
                pool.append({"obj": ans, "origin": ["op", name, tref, orefs, arg], "muts": [], "kind": k,
                             "base": False, "tainted": tainted})
                if same:
                    # the conversion handed out an object that already lives in the pool (e.g. `self`): it joins the
                    # pool as a returned object; mutating it later is exactly what the property talks about
                    ev["returned_existing_object"] = same[0]
                    pool[-1]["alias_of"] = same[0]
        core.LOG.count("C19.events")
        stats.cls(("mutate:%s:%s" % (entry["kind"], mut)) if mut else ("op:%s.%s" % (entry["kind"], name)))
        if ev.get("returned_existing_object") is not None:
            stats.cls("conversion_returned_an_existing_object:%s.%s" % (entry["kind"], name))
        events.append(ev)
        # ---- online frame monitor
        with core.oracle_mode():
            after = [signature(e["obj"]) for e in pool[:len(before)]]
            core.LOG.count("C19.frame_checks", len(before))
            for i, (a, b) in enumerate(zip(before, after)):
                if a != b and i not in changed_allowed:
                    how = "alias:mutation-of-returned-object-changed-another-object" if mut else "operand-or-bystander-changed"
                    tags = [("mut:" + pool[ti]["kind"]) if mut else ("op:" + str(name)), "victim:" + pool[i]["kind"]]
                    if mut:
                        if pool[i]["obj"] is entry["obj"]:
                            # two pool entries are one object: the conversion that created the later entry handed
                            # out an existing object
                            later = pool[max(i, ti)]
                            tags.append("same-object-returned-by:" + str(root_op(later)))
                        else:
                            tags.append("source-op:" + str(root_op(entry)))
                    core.report(PROP, "frame", how, {"step": step, "event": {k: v for k, v in ev.items() if k not in ("tref", "orefs", "answer")},
                                                      "changed_object": i}, tags)
                    # the damaged object keeps answering from its damaged state: re-synchronise its provenance so
                    # that one alias is reported once, not on every later answer
                    pool[i]["tainted"] = True
                    if mut and pool[i]["obj"] is entry["obj"]:
                        # one object under two pool entries: the provenance of neither entry describes it any more
                        entry["tainted"] = True
    # ---- offline checker over the event log
    with core.oracle_mode():
        for ev in events:
            if "op" not in ev:
                continue
            if ev["tainted"]:
                core.LOG.count("C19.events_on_already_damaged_objects")
                continue
            core.LOG.count("C19.twin_comparisons")
            try:
                memo = {}
                tgt = rebuild(pool, ev["tref"], memo)
                others = [rebuild(pool, r, memo) for r in ev["orefs"]]
            except Exception as e:
                core.LOG.discard("twin_not_rebuildable:" + type(e).__name__)
                continue
            try:
                ans = apply_op(ev["op"], tgt, others, ev["arg"])
            except Exception as e:
                ans = e
            try:
                exp = normal(ans)
            except Exception as e:
                exp = ["unnormalisable", type(e).__name__]
            if exp != ev["answer"]:
                core.report(PROP, "answer_stability", "answer-differs-from-fresh-twin",
                            {"step": ev["step"], "op": ev["op"], "kind": ev["kind"], "got": ev["answer"][:2] if isinstance(ev["answer"], list) else ev["answer"],
                             "fresh": exp[:2] if isinstance(exp, list) else exp, "history": history_of(events, ev)},
                            ["op:" + ev["op"], "kind:" + ev["kind"]] + prior_ops(events, ev))
    stats.extra["events_sample"] = [{k: v for k, v in e.items() if k not in ("tref", "orefs")} for e in events[:6]]
    return answered >= 6 and len(kinds_done) >= 3


def root_op(entry):
    return entry["origin"][1] if entry["origin"][0] == "op" else "base"


def history_of(events, ev):
    return [e.get("op") or ("mutate:" + e.get("mutation", "?")) for e in events
            if e["step"] < ev["step"] and e["target"] == ev["target"]][-6:]


def prior_ops(events, ev):
    ops = sorted({"after:" + (e.get("op") or "mutation") for e in events
                  if e["step"] < ev["step"] and (e["target"] == ev["target"] or ev["target"] in e.get("others", []))})
    return ops[:0]      # kept out of the signature (too many groups); the history is in the detail


# ---------------------------------------------------------------- targeted histories

def targeted(rng, n):
    """scripts aimed at each cache in the anchors; pool indices: 0,1 fa  2,3 regex  4,5 cfg  6 pda  7 fst  8 ig
    9,10 empty-language fa  11 feature grammar  12 epsilon-chain fa  13 wide grammar; "Rk" = the k-th object returned during the history"""
    out = []
    analyses = ["get_generating_symbols", "get_nullable_symbols", "generate_epsilon", "is_empty", "contains",
                "to_normal_form", "get_words", "is_finite"]
    for _ in range(n):
        perm = analyses[:]
        rng.shuffle(perm)
        script = []
        for name in perm:
            script.append({"target": 4, "op": name, "arg": rng.randrange(6)})
        script.append({"target": 4, "op": "intersection", "others": [0], "arg": 0})
        for name in perm[:4]:
            script.append({"target": 4, "op": name, "arg": rng.randrange(6)})
        out.append(script)
        # regex as sub-expression before / after its own accepts; mutated to_epsilon_nfa result
        out.append([{"target": 2, "op": "accepts", "arg": 1}, {"target": 2, "op": "union", "others": [3], "arg": 0},
                    {"target": "R0", "op": "accepts", "arg": 1}, {"target": 2, "op": "accepts", "arg": 2},
                    {"target": 3, "op": "accepts", "arg": 1}, {"target": 3, "op": "accepts", "arg": 2},
                    {"target": 2, "op": "to_epsilon_nfa", "arg": 0}, {"target": "R1", "mutate": "add_final_all"},
                    {"target": 2, "op": "accepts", "arg": 0}, {"target": 2, "op": "accepts", "arg": 3},
                    {"target": "R0", "op": "to_epsilon_nfa", "arg": 0}, {"target": 2, "op": "accepts", "arg": 4},
                    {"target": 3, "op": "accepts", "arg": 4}, {"target": 2, "op": "to_cfg", "arg": 0}])
        # DFA.to_deterministic / copy / minimize results mutated
        out.append([{"target": 1, "op": "to_deterministic", "arg": 0}, {"target": "R0", "mutate": "add_final_all"},
                    {"target": 1, "op": "accepts", "arg": 0}, {"target": 1, "op": "accepts", "arg": 1},
                    {"target": 1, "op": "copy", "arg": 0}, {"target": "R1", "mutate": "add_transition_new"},
                    {"target": 1, "op": "accepts", "arg": 1}, {"target": 1, "op": "minimize", "arg": 0},
                    {"target": 0, "op": "to_dict", "arg": 0}, {"target": "R3", "mutate": "clear"},
                    {"target": 0, "op": "get_number_transitions", "arg": 0}, {"target": 0, "op": "accepts", "arg": 1}])
        # PDA.to_dict mutated; repeated to_cfg / intersection over shared State objects
        out.append([{"target": 6, "op": "to_dict", "arg": 0}, {"target": "R0", "mutate": "clear"},
                    {"target": 6, "op": "get_number_transitions", "arg": 0}, {"target": 6, "op": "to_cfg", "arg": 0},
                    {"target": 6, "op": "to_final_state", "arg": 0}, {"target": "R2", "op": "to_cfg", "arg": 0},
                    {"target": 6, "op": "to_cfg", "arg": 0}, {"target": 6, "op": "intersection", "others": [1], "arg": 0},
                    {"target": 4, "op": "intersection", "others": [1], "arg": 0},
                    {"target": 5, "op": "intersection", "others": [1], "arg": 0},
                    {"target": 4, "op": "intersection", "others": [1], "arg": 0}])
        # shared Production / Variable objects between grammars, conversions in between
        out.append([{"target": 4, "op": "intersection", "others": [0], "arg": 0},
                    {"target": 4, "op": "share_productions", "others": [5], "arg": 0},
                    {"target": "R1", "op": "intersection", "others": [1], "arg": 0},
                    {"target": 5, "op": "intersection", "others": [1], "arg": 0},
                    {"target": 5, "op": "share_productions", "others": [4], "arg": 0},
                    {"target": "R4", "op": "intersection", "others": [0], "arg": 0},
                    {"target": "R4", "op": "contains", "arg": 3}, {"target": "R1", "op": "to_pda", "arg": 0}])
        # results of minimize() on two different empty-language automata: mutating one must not change the other
        out.append([{"target": 9, "op": "minimize", "arg": 0}, {"target": 10, "op": "minimize", "arg": 0},
                    {"target": "R0", "mutate": "add_transition_new"}, {"target": "R0", "mutate": "add_final_all"},
                    {"target": 10, "op": "minimize", "arg": 0}, {"target": 9, "op": "is_equivalent_to", "others": [10], "arg": 0},
                    {"target": 10, "op": "is_equivalent_to", "others": [0], "arg": 0}, {"target": "R1", "op": "accepts", "arg": 1},
                    {"target": 9, "op": "minimize", "arg": 0}, {"target": "R3", "op": "accepts", "arg": 1}])
        # a grammar with forty variables: the empty word first, then the analyses and other words
        out.append([{"target": 13, "op": "contains", "arg": 0}, {"target": 13, "op": "generate_epsilon", "arg": 0},
                    {"target": 13, "op": "contains", "arg": 0}, {"target": 13, "op": "is_empty", "arg": 0},
                    {"target": 13, "op": "get_nullable_symbols", "arg": 0}, {"target": 13, "op": "contains", "arg": 1},
                    {"target": 13, "op": "get_generating_symbols", "arg": 0}, {"target": 13, "op": "contains", "arg": 3},
                    {"target": 13, "op": "contains", "arg": 0}, {"target": 13, "op": "remove_epsilon", "arg": 0},
                    {"target": 13, "op": "to_normal_form", "arg": 0}])
        # a regex over the symbols a, b and ab: words that spell the same text asked of one object
        out.append([{"target": 2, "op": "accepts", "arg": a} for a in (3, 11, 3, 12, 13, 11, 1, 12)] +
                   [{"target": 3, "op": "accepts", "arg": a} for a in (11, 3, 13, 12, 3)])
        # feature grammar: the same and other words asked again and again of one object (chart / lexicon state)
        ws = [rng.randrange(14) for _ in range(12)]
        out.append([{"target": 11, "op": "contains", "arg": a} for a in ws + ws[:4]])
        # an automaton edited by epsilon moves between queries (closures computed before the edit)
        out.append([{"target": 0, "op": "accepts", "arg": 3}, {"target": 0, "op": "to_deterministic", "arg": 0},
                    {"target": 0, "op": "accepts", "arg": 5}, {"target": 0, "mutate": "add_eps_final_to_start"},
                    {"target": 0, "op": "accepts", "arg": 3}, {"target": 0, "op": "accepts", "arg": 5},
                    {"target": 0, "op": "accepts", "arg": 4}, {"target": 0, "op": "minimize", "arg": 0},
                    {"target": 0, "op": "is_equivalent_to", "others": [1], "arg": 0},
                    {"target": 0, "mutate": "remove_eps_all"}, {"target": 0, "op": "accepts", "arg": 3},
                    {"target": 0, "op": "accepts", "arg": 1}, {"target": 0, "op": "remove_epsilon_transitions", "arg": 0},
                    {"target": 0, "op": "get_accepted_words", "arg": 0}])
        # an automaton without epsilon moves converted again: the second result edited, the first one asked
        out.append([{"target": 0, "op": "remove_epsilon_transitions", "arg": 0},
                    {"target": "R0", "op": "remove_epsilon_transitions", "arg": 0},
                    {"target": "R1", "mutate": "add_transition_new"}, {"target": "R0", "op": "accepts", "arg": 1},
                    {"target": "R0", "op": "accepts", "arg": 3}, {"target": "R0", "op": "get_number_transitions", "arg": 0},
                    {"target": "R0", "mutate": "add_final_all"}, {"target": "R1", "op": "accepts", "arg": 0},
                    {"target": "R1", "op": "accepts", "arg": 2}, {"target": "R0", "op": "copy", "arg": 0},
                    {"target": "R2", "mutate": "add_transition_new"}, {"target": "R0", "op": "accepts", "arg": 1},
                    {"target": "R0", "op": "reverse", "arg": 0}, {"target": "R3", "mutate": "add_transition_new"},
                    {"target": "R0", "op": "accepts", "arg": 1}])
        # the dictionary form of an automaton and of a PDA: its inner containers edited, the source asked again
        out.append([{"target": 12, "op": "to_dict", "arg": 0}, {"target": "R0", "mutate": "edit_inner"},
                    {"target": 12, "op": "accepts", "arg": 1}, {"target": 12, "op": "get_number_transitions", "arg": 0},
                    {"target": 12, "op": "accepts", "arg": 3}, {"target": 0, "op": "to_dict", "arg": 0},
                    {"target": "R1", "mutate": "edit_inner"}, {"target": 0, "op": "accepts", "arg": 1},
                    {"target": 0, "op": "get_number_transitions", "arg": 0}, {"target": 0, "op": "to_deterministic", "arg": 0},
                    {"target": 6, "op": "to_dict", "arg": 0}, {"target": "R3", "mutate": "edit_inner"},
                    {"target": 6, "op": "get_number_transitions", "arg": 0}, {"target": 6, "op": "to_cfg", "arg": 0}])
        # epsilon chain: the closure of the start state changes through edits of edges further down the chain
        out.append([{"target": 12, "op": "accepts", "arg": rng.randrange(14)}, {"target": 12, "op": "accepts", "arg": 1},
                    {"target": 12, "op": "to_deterministic", "arg": 0}, {"target": 12, "mutate": "extend_eps"},
                    {"target": 12, "op": "accepts", "arg": 0}, {"target": 12, "op": "accepts", "arg": 1},
                    {"target": 12, "op": "accepts", "arg": rng.randrange(14)}, {"target": 12, "op": "is_empty", "arg": 0},
                    {"target": 12, "op": "remove_epsilon_transitions", "arg": 0},
                    {"target": 12, "mutate": "cut_eps_second"}, {"target": 12, "op": "accepts", "arg": 0},
                    {"target": 12, "op": "accepts", "arg": 1}, {"target": 12, "op": "accepts", "arg": rng.randrange(14)},
                    {"target": 12, "op": "to_deterministic", "arg": 0}, {"target": 12, "op": "minimize", "arg": 0},
                    {"target": 12, "op": "get_accepted_words", "arg": 0}])
        # indexed grammar: repeated emptiness, after remove_useless_rules
        out.append([{"target": 8, "op": "is_empty", "arg": 0}, {"target": 8, "op": "is_empty", "arg": 0},
                    {"target": 8, "op": "remove_useless_rules", "arg": 0}, {"target": 8, "op": "is_empty", "arg": 0},
                    {"target": "R0", "op": "is_empty", "arg": 0}, {"target": "R0", "op": "is_empty", "arg": 0}])
    return out


def plan(tier, rng, sl, nslices, stats):
    cfg = TIERS[tier]
    for _ in range(cfg["random"]):
        yield {"seed": rng.randrange(1 << 30), "length": rng.randint(10, 40)}
    for rep in range(cfg["targeted"] * 8):
        seed = rng.randrange(1 << 30)
        for script in targeted(random.Random(seed), 1):
            yield {"seed": seed, "script": script}
    for rep in range(cfg["targeted"] * 40):
        # many feature grammars (one per seed), each asked a run of words with repeats
        seed = rng.randrange(1 << 30)
        yield {"seed": seed, "script": fcfg_scripts(random.Random(seed))}
    for rep in range(cfg["targeted"] * 40):
        seed = rng.randrange(1 << 30)
        yield {"seed": seed, "script": fa_scripts(random.Random(seed)), "fa0": ["tiny", "parallel"][rep % 2]}
    for rep in range(cfg["targeted"] * 60):
        seed = rng.randrange(1 << 30)
        yield {"seed": seed, "script": cfg_scripts(random.Random(seed)), "cfg4": [None, "repeat", "dense", "repeat"][rep % 4]}


def cfg_scripts(rng):
    """many grammars (one per seed), each asked its analyses in a random order, some of them twice"""
    analyses = ["get_generating_symbols", "get_nullable_symbols", "generate_epsilon", "is_empty", "contains",
                "to_normal_form", "remove_epsilon", "is_finite", "contains", "get_words"]
    rng.shuffle(analyses)
    return [{"target": 4, "op": a, "arg": rng.randrange(6)} for a in analyses + analyses[:4]]


def fa_scripts(rng):
    """many small automata (one per seed), each put through its conversions and operations in a random order, with
    membership questions in between"""
    steps = [{"op": "to_regex"}, {"op": "union", "others": [1]}, {"op": "concatenate", "others": [1]}, {"op": "kleene_star"},
             {"op": "minimize"}, {"op": "to_deterministic"}, {"op": "remove_epsilon_transitions"}, {"op": "get_complement"},
             {"op": "reverse"}, {"op": "to_fst"}, {"op": "get_intersection", "others": [1]}, {"op": "is_equivalent_to", "others": [1]}]
    rng.shuffle(steps)
    out = []
    for st in steps[:8]:
        out.append(dict(st, target=0, arg=0))
        out.append({"target": 0, "op": "accepts", "arg": rng.randrange(14)})
    return out


def fcfg_scripts(rng):
    ws = [rng.randrange(14) for _ in range(14)]
    return [{"target": 11, "op": "contains", "arg": a} for a in ws + ws[:5]]


def run_case(c, stats):
    stats.cls("targeted" if c.get("script") else "random")
    return run_history(c, stats)
