"""C16 - FST translation is the transduction relation; FST operations compose relations."""
import random
from vf import core, extract, values
from vf.gen import fst as gfst
from vf.gen import fa as gfa
from vf.ref import fst as rf
from vf.ref import nfa as rn
from vf.worker import call

PROP = "C16"
N = 3
TECHNIQUE = "runtime contracts with relational reference oracle; translate drained by the monitor under sys.monitoring step budgets"
RULE = ("random nondeterministic FSTs (<=3 states, <=6 transitions, several start/final states, epsilon-input moves "
        "incl. output-free epsilon cycles, start states with incoming and final states with outgoing transitions, "
        "operands sharing state names, the same operand twice, string and int state names); operands whose epsilon "
        "cycles write output are outside the quantifier and discarded reference-side; translate(w) is drained by the "
        "monitor under a logical step budget and its set of outputs compared with the reference relation for all "
        "input words <=%d; union / concatenate / kleene_star / | / + results are extracted and their relation compared "
        "with the reference relation operation; to_fst() must be the identity on the automaton's language. "
        "Non-trivial: some word <=%d has an output; distinct = case hash." % (N, N) +
        ' Later additions: hub-shaped transducers, random expressions over union / concatenation / star, label-like symbols; the lists returned by translate are edited and translate asked again; operands and results edited after an operation and the other object translated again; words as tuples / one-shot iterables; the transducer is also compared with the case record.')
ASSUMPTIONS = ["termination of translate is restated as bounded progress under a step budget"]
TIERS = {
    "quick": {"workers": 4, "random": 3000},
    "thorough": {"workers": 16, "random": 20000, "pytest": True, "hard_timeout": 3000},
}
MIN = {"quick": {"C16.translate": 10000, "C16.FST.union": 500, "C16.FST.concatenate": 500,
                 "C16.FST.kleene_star": 500, "C16.FiniteAutomaton.to_fst": 300},
       "thorough": {"C16.translate": 200000, "C16.FST.kleene_star": 5000}}


def anchors():
    from pyformlang.fst import FST
    from pyformlang.finite_automaton.finite_automaton import FiniteAutomaton
    return [FST.translate, FST.union, FST.concatenate, FST.kleene_star, FiniteAutomaton.to_fst]


def words(alpha, n=N):
    al = sorted(alpha)[:2] or ["a"]
    return list(rn.all_words(al + ["zz_foreign"], n))


def tags_of(r):
    t = []
    if any(f in {tr[0] for tr in r.trans} for f in r.finals):
        t.append("final_state_has_outgoing")
    if any(s in {tr[2] for tr in r.trans} for s in r.starts):
        t.append("start_state_has_incoming")
    if not all(isinstance(s, str) for s in r.states):
        t.append("non_string_state")
    return t


def judge_translate(f, ref, w, sub="translate", extra_tags=()):
    """monitor drains translate(w) under a step budget and compares the output set"""
    tags = tags_of(ref) + list(extra_tags)
    try:
        exp = ref.relation(w)
    except rf.GaveUp:
        core.LOG.discard("reference_relation_too_large")
        return
    core.LOG.count("C16.translate")
    maxout = max([len(o) for o in exp] + [0])
    # the library follows every path (no sharing between paths that differ in their output only): the number of paths
    # grows with the out-degree of the states to the power of the word length, also when nothing is accepted
    deg = {}
    for tr in ref.trans:
        deg[tr[0]] = deg.get(tr[0], 0) + 1
    paths = min(20000, max(list(deg.values()) + [1]) ** (len(w) + 1))
    budget = 100 * (len(w) + 1) * (len(ref.states) + 1) * (len(ref.trans) + 1) * (maxout + 2) + 5000 + 400 * paths
    got = []
    try:
        with core.step_budget(budget):
            if len(w) == 1 or len(exp) == 2:
                # a caller may stop reading the translations early (first result only) and ask again
                for _ in f.translate(list(w)):
                    break
                core.LOG.count("C16.abandoned_generators")
            for o in f.translate(values.word_form(w, len(w) + len(exp))):
                got.append(tuple(o))
    except core.StepBudgetExceeded:
        core.report(PROP, sub, "step-budget-exceeded", {"word": list(w), "partial": [list(x) for x in got[:3]]}, tags)
        return
    except core.CaseTimeout:
        raise
    except Exception as e:
        core.report(PROP, sub, "exception:" + type(e).__name__, {"word": list(w)}, tags)
        return
    gs = set(got)
    if gs == exp and sub == "translate" and len(w) <= 2:
        # the yielded lists belong to the caller: editing them must not change what the transducer writes
        try:
            with core.step_budget(budget):
                first = list(f.translate(list(w)))
                for o in first:
                    o.append("<edited-by-caller>")
                again = set(tuple(o) for o in f.translate(list(w)))
            if again != exp:
                core.report(PROP, "translate", "returned-list-is-live", {"word": list(w)}, tags)
        except (core.StepBudgetExceeded, Exception):
            pass
    if gs != exp:
        miss, extra = exp - gs, gs - exp
        core.report(PROP, sub, "missing-output" if miss else "extra-output",
                    {"word": list(w), "output": list(min(miss or extra, key=len))}, tags)


def pre1(self, args, kwargs):
    return (extract.fst(self),)


def pre2(self, args, kwargs):
    from pyformlang.fst import FST
    if not args or not isinstance(args[0], FST):
        return None
    return extract.fst(self), extract.fst(args[0])


def make_post(name, relop, binary):
    def post(st, self, args, kwargs, result, exc):
        if st is None:
            return
        if any(r.eps_cycle_writes() for r in st):
            core.LOG.discard("operand_eps_cycle_writes")
            return
        tags = []
        for r in st:
            tags += [t for t in tags_of(r) if t not in tags]
        if binary and args[0] is self:
            tags.append("same_object")
        if binary and ({repr(s) for s in st[0].states} & {repr(s) for s in st[1].states}):
            tags.append("shared_state_names")
        if name == "kleene_star" and any(o for o in st[0].relation(())):
            core.LOG.discard("star_of_relation_with_(eps,nonempty)_pair")
            return
        if exc is not None:
            core.report(PROP, name, "exception:" + type(exc).__name__, {"msg": str(exc)[:80]}, tags)
            return
        res = extract.fst(result)
        alpha = set()
        for r in st:
            alpha |= r.alpha
        try:
            for w in words(alpha):
                exp = relop(*st, w)
                got = res.relation(w)
                if exp != got:
                    miss, extra = exp - got, got - exp
                    core.report(PROP, name, "missing-pair" if miss else "extra-pair",
                                {"word": list(w), "output": list(min(miss or extra, key=len))}, tags)
                    break
        except rf.GaveUp:
            if res.eps_cycle_writes():
                core.report(PROP, name, "result-has-writing-epsilon-cycle", None, tags)
            else:
                core.LOG.discard("reference_relation_too_large")
        for r, o in zip(st, (self,) + tuple(args[:1])):
            if extract.fst(o).key() != r.key():
                core.report(PROP, name, "operand-mutated", None, tags)
                break
    return post


def pre_fa(self, args, kwargs):
    return extract.fa(self)


def post_to_fst(ref, self, args, kwargs, result, exc):
    tags = ["has_epsilon"] if ref.has_eps() else []
    if exc is not None:
        core.report(PROP, "to_fst", "exception:" + type(exc).__name__, None, tags)
        return
    res = extract.fst(result)
    for w in rn.all_words(sorted(ref.alpha, key=repr)[-2:] + ["zz_foreign"], N):
        exp = {tuple(w)} if ref.accepts(w) else set()
        try:
            got = res.relation(w, cap=3000)
        except rf.GaveUp:
            core.report(PROP, "to_fst", "relation-not-finite", {"word": list(w)}, tags)
            return
        if got != exp:
            core.report(PROP, "to_fst", "missing-pair" if exp - got else "extra-pair",
                        {"word": list(w), "got": [list(x) for x in list(got)[:3]]}, tags)
            return


def install():
    from pyformlang.fst import FST
    from pyformlang.finite_automaton.finite_automaton import FiniteAutomaton
    m = core.monitored
    m(FST, "union", PROP, pre2, make_post("union", rf.rel_union, True))
    m(FST, "__or__", PROP, pre2, make_post("union", rf.rel_union, True))
    m(FST, "concatenate", PROP, pre2, make_post("concatenate", rf.rel_concat, True))
    m(FST, "__add__", PROP, pre2, make_post("concatenate", rf.rel_concat, True))
    m(FST, "kleene_star", PROP, pre1, make_post("kleene_star", rf.rel_star, False))
    m(FiniteAutomaton, "to_fst", PROP, pre_fa, post_to_fst)
    core.budget_funcs([FST.translate])


def plan(tier, rng, sl, nslices, stats):
    cfg = TIERS[tier]
    if sl == 0:
        yield {"scale": "fold", "n": 14, "op": "union"}
        yield {"scale": "fold", "n": 13, "op": "union_right"}
        yield {"scale": "long_word", "n": 1100}
    for i in range(cfg["random"]):
        a = gfst.random_case(rng)
        r = rng.random()
        b = None if r < 0.1 else gfst.random_case(rng, vcs=[a["vc"]] if rng.random() < 0.7 else None)
        c = {"a": a, "b": b}
        if i % 5 == 1:
            c["nested"] = True
            c["expr_seed"] = rng.randrange(1 << 30)
            a["trans"] = a["trans"][:3]
            if b:
                b["trans"] = b["trans"][:3]
        if i % 7 == 3:
            c["a"] = a = gfst.hub_case(rng)
        if i % 4 == 0:
            c["fa"] = gfa.random_case(rng, max_states=3, max_syms=4, vcs=["int", "str", "binary"])
        yield c


def run_scale(c, stats):
    """(a) fourteen small transducers that all call their states q, m, f are folded with union / concatenate (the
    renaming counter of the shared names reaches two digits); (b) a word of a thousand symbols is translated"""
    from pyformlang.fst import FST
    stats.cls("scale:" + c["scale"])
    if c["scale"] == "fold":
        def operand(i):
            f = FST()
            f.add_start_state("q")
            f.add_final_state("f")
            f.add_transition("q", "ab"[i % 2], "m", ["x"] * (i + 1))
            f.add_transition("m", "ab"[(i // 2) % 2], "f", ["y"] * (i + 1))
            return f
        acc = operand(0)
        for i in range(1, c["n"]):
            ok, acc2 = call(acc.union, operand(i)) if c["op"] == "union" else call(operand(i).union, acc)
            if not ok:
                return False
            acc = acc2
        with core.oracle_mode():
            racc = extract.fst(acc)
            for w in words({"a", "b"}, 2):
                judge_translate(acc, racc, w, sub="translate_of_result")
        return True
    # long word through a one-state letter-to-letter transducer, its star and the identity of an automaton
    f = FST()
    f.add_start_state(0)
    f.add_final_state(0)
    f.add_transition(0, "a", 0, ["x"])
    f.add_transition(0, "b", 0, ["y", "y"])
    n = c["n"]
    w = ["ab"[i % 2] for i in range(n)]
    exp = []
    for s_ in w:
        exp.extend(["x"] if s_ == "a" else ["y", "y"])
    for g_ in (f,):
        try:
            with core.step_budget(40000000):
                got = [list(o) for o in g_.translate(list(w))]
        except core.StepBudgetExceeded:
            core.LOG.count("C16.scale_budget_overrun")
            continue
        except Exception as e:      # noqa
            with core.oracle_mode():
                core.report(PROP, "translate", "exception:" + type(e).__name__, {"word_length": n}, ["long_word"])
            continue
        core.LOG.count("C16.long_words")
        with core.oracle_mode():
            if got != [exp]:
                core.report(PROP, "translate", "missing-output" if not got else "extra-output",
                            {"word_length": n, "outputs": len(got)}, ["long_word"])
    return True


def run_case(c, stats):
    if c.get("scale"):
        return run_scale(c, stats)
    A = gfst.build(c["a"])
    B = A if c["b"] is None else gfst.build(c["b"])
    with core.oracle_mode():
        ra, rb = extract.fst(A), extract.fst(B)
        want = gfst.ref_of_case(c["a"])
        core.LOG.count("C16.construction")
        if (ra.trans, ra.starts, ra.finals) != (want.trans, want.starts, want.finals):
            core.report(PROP, "construct", "transducer-differs-from-what-was-added",
                        {"got": repr(ra.trans)[:200], "want": repr(want.trans)[:200]}, ["form:" + str(c["a"].get("form"))])
        bad = ra.eps_cycle_writes() or rb.eps_cycle_writes()
        stats.cls("eps_cycle_writes" if bad else "in_quantifier")
        for t in tags_of(ra):
            stats.cls("tag:" + t)
    nt = False
    if not bad and len(c["a"]["trans"]) % 4 == 3:
        # a bystander transducer with the same state names (one transition less) translates first
        by = gfst.build(dict(c["a"], trans=c["a"]["trans"][1:]))
        with core.oracle_mode():
            rby = extract.fst(by)
            if not rby.eps_cycle_writes():
                for w in words(ra.alpha, 2):
                    judge_translate(by, rby, w, sub="translate")
        call(by.kleene_star)
        stats.cls("bystander_first")
    if not bad:
        with core.oracle_mode():
            for w in words(ra.alpha):
                judge_translate(A, ra, w)
            nt = any(ra.relation(w) for w in words(ra.alpha))
        results = []
        for f in (lambda: A.union(B), lambda: A.concatenate(B), lambda: A.kleene_star(), lambda: A | B,
                  lambda: A + B, lambda: B.concatenate(A)):
            ok, r = call(f)
            if ok:
                results.append(r)
        if c.get("nested"):
            # operations on results: star of star, star of a concatenation with a starred operand (fresh-name paths)
            ok1, s1 = call(A.kleene_star)
            if ok1:
                ok2, s2 = call(s1.kleene_star)
                if ok2:
                    ok3, cc = call(s2.concatenate, B)
                    if ok3:
                        ok4, s3 = call(cc.kleene_star)
                        if ok4:
                            results.append(s3)
                            call(s3.union, s2)
            # star of a union of stars: several hub states that are both initial and final
            oka, sa = call(A.kleene_star)
            okb, sb = call(B.kleene_star)
            if oka and okb:
                oku, u = call(sa.union, sb)
                if oku:
                    okr, r6 = call(u.kleene_star)
                    if okr:
                        results.append(r6)
            # random expressions over the operands and earlier results, e.g. (A* | B*)*, (A B)* | A
            rng = random.Random(c.get("expr_seed", 0))
            pool = [A, B]
            for _ in range(rng.randint(2, 4)):
                small = [x for x in pool if len(x.states) <= 8]
                if not small:
                    break
                op = rng.choice(["star", "star", "union", "concat"])
                x = rng.choice(small)
                y = rng.choice(small)
                ok5, r5 = call(x.kleene_star) if op == "star" else call(x.union, y) if op == "union" \
                    else call(x.concatenate, y)
                if ok5:
                    pool.append(r5)
            results.extend(pool[-2:] if len(pool) > 3 else [])
        # the library's own translate on the results (second route)
        with core.oracle_mode():
            for r in results[-4:]:
                rr = extract.fst(r)
                if rr.eps_cycle_writes():
                    continue
                for w in words(ra.alpha | rb.alpha, 2):
                    judge_translate(r, rr, w, sub="translate_of_result")
    if not bad and c["a"]["trans"] and not c.get("nested"):
        # results and operands are separate objects: an operand edited after the operation (a second output for a
        # (state, input) pair it already has) leaves the result as it was, and the other way round
        A2 = gfst.build(c["a"])
        B2 = A2 if c["b"] is None else gfst.build(c["b"])
        p_, a_, q_, _o = c["a"]["trans"][0]
        src, dst = gfst.sval(c["a"], p_), gfst.sval(c["a"], q_)
        sym = "epsilon" if a_ < 0 else (c["a"].get("ins") or gfst.INS)[a_]
        for op in ("union", "concatenate", "kleene_star"):
            ok, r = call(getattr(A2, op), *(() if op == "kleene_star" else (B2,)))
            if not ok:
                continue
            with core.oracle_mode():
                rr_before = extract.fst(r)
                ra_before = extract.fst(A2)
            call(A2.add_transition, src, sym, dst, ["edit_%s" % op])
            with core.oracle_mode():
                core.LOG.count("C16.edit_after_operation")
                if not rr_before.eps_cycle_writes():
                    for w in words(ra.alpha | rb.alpha, 2):
                        judge_translate(r, rr_before, w, sub="result_after_operand_edit")
            # ... and an edit of the result (every transition head it has gets a second output)
            with core.oracle_mode():
                ra_now = extract.fst(A2)
                heads = list(rr_before.trans)[:4]
            for (p2, a2, q2, o2) in heads:
                call(r.add_transition, p2, "epsilon" if a2 == rf.EPS else a2, q2, ["edit_result"])
            with core.oracle_mode():
                if not ra_now.eps_cycle_writes():
                    for w in words(ra.alpha, 2):
                        judge_translate(A2, ra_now, w, sub="operand_after_result_edit")
    if "fa" in c:
        fa = gfa.build(c["fa"])
        ok, t = call(fa.to_fst)
        if ok:
            with core.oracle_mode():
                ref = extract.fa(fa)
                rt = extract.fst(t)
                if not rt.eps_cycle_writes():
                    for w in rn.all_words(sorted(ref.alpha, key=repr)[-2:], 2):
                        judge_translate(t, rt, w, sub="translate_of_to_fst")
            # the automaton is edited after the conversion (edit script, and its start state moved) and converted
            # again: the contract on to_fst judges the new transducer against the automaton as it is now
            gfa.apply_edits(fa, c["fa"])
            sts = sorted(fa.states, key=lambda x: repr(x.value))
            if sts:
                for s0 in list(fa.start_states):
                    call(fa.remove_start_state, s0)
                call(fa.add_start_state, sts[-1])
            ok2, t2 = call(fa.to_fst)
            if ok2:
                with core.oracle_mode():
                    ref2 = extract.fa(fa)
                    rt2 = extract.fst(t2)
                    if not rt2.eps_cycle_writes():
                        for w in rn.all_words(sorted(ref2.alpha, key=repr)[-2:], 2):
                            judge_translate(t2, rt2, w, sub="translate_of_to_fst")
    return nt
