"""C12 - CFG emptiness, finiteness, symbol classes and word enumeration."""
import collections

from vf import core, extract
from vf.gen import cfg as gcfg
from vf.props.cfgcommon import ref_of, tags_of
from vf.worker import call

PROP = "C12"
TECHNIQUE = "runtime contracts with reference-model oracle; generators drained by the monitor under sys.monitoring step budgets (bounded progress)"
RULE = ("grammars as in C08/C09; is_empty/bool, is_finite, get_generating_symbols, get_nullable_symbols, "
        "get_reachable_symbols compared with reference fixpoints (exact finiteness by the growing-edge-on-a-cycle "
        "criterion); get_words(n) for n in 0..5 and unbounded (only on reference-finite languages, under a logical "
        "step budget) drained by the monitor and compared as a multiset with the reference bounded language. "
        "Non-trivial: non-empty language and >=2 productions; distinct = case hash."
        " Later additions: the same analyses asked of grammars derived from the case (remove_epsilon, normal form, reverse, closure ...) after the parent's analyses were warmed.")
ASSUMPTIONS = ["declared terminals count as generating (they derive themselves); symbols are compared by (kind, value)",
               "termination of unbounded get_words is restated as bounded progress under a step budget"]
TIERS = {
    "quick": {"workers": 4, "random": 4000},
    "thorough": {"workers": 16, "random": 40000, "pytest": True, "exhaustive": True, "hard_timeout": 3000},
}
MIN = {"quick": {"C12.CFG.is_empty": 3000, "C12.CFG.is_finite": 3000, "C12.CFG.get_generating_symbols": 3000,
                 "C12.CFG.get_nullable_symbols": 3000, "C12.CFG.get_reachable_symbols": 3000, "C12.words": 10000},
       "thorough": {"C12.CFG.is_finite": 100000, "C12.words": 300000}}


def anchors():
    from pyformlang.cfg import CFG
    return [CFG._get_generating_or_nullable, CFG.get_reachable_symbols, CFG.is_empty, CFG.is_finite, CFG.get_words]


def pre(self, args, kwargs):
    return ref_of(self)


def symset(objs):
    from pyformlang.cfg import Variable, Terminal
    out = set()
    for x in objs:
        if x is None:
            continue        # a grammar without start symbol reports {None}: not a symbol, not judged
        if isinstance(x, Variable):
            out.add(("V", x.value))
        elif isinstance(x, Terminal):
            out.add(("T", x.value))
        else:
            out.add(("?", repr(x)))
    return out


def make_post_bool(name, expected, invert=False):
    def post(ref, self, args, kwargs, result, exc):
        tags = tags_of(ref)
        if exc is not None:
            core.report(PROP, name, "exception:" + type(exc).__name__, None, tags)
            return
        exp = expected(ref)
        got = (not result) if invert else bool(result)
        if got != exp:
            core.report(PROP, name, "wrong-true" if got else "wrong-false", None, tags)
    return post


def make_post_set(name, expected):
    def post(ref, self, args, kwargs, result, exc):
        tags = tags_of(ref)
        if exc is not None:
            core.report(PROP, name, "exception:" + type(exc).__name__, None, tags)
            return
        got = symset(result)
        exp = expected(ref)
        if got != exp:
            miss, extra = exp - got, got - exp
            core.report(PROP, name, "missing-symbol" if miss else "extra-symbol",
                        {"symbol": sorted(map(repr, miss or extra))[:3]}, tags)
    return post


def exp_generating(ref):
    return {("V", v) for v in ref.generating()} | {("T", t) for t in ref.terminals}


def exp_nullable(ref):
    return {("V", v) for v in ref.nullable()}


def exp_reachable(ref):
    return ref.reachable()


def install():
    from pyformlang.cfg import CFG
    m = core.monitored
    m(CFG, "is_empty", PROP, pre, make_post_bool("is_empty", lambda r: r.is_empty()))
    m(CFG, "__bool__", PROP, pre, make_post_bool("is_empty", lambda r: r.is_empty(), invert=True))
    m(CFG, "is_finite", PROP, pre, make_post_bool("is_finite", lambda r: r.is_finite()))
    m(CFG, "get_generating_symbols", PROP, pre, make_post_set("get_generating_symbols", exp_generating))
    m(CFG, "get_nullable_symbols", PROP, pre, make_post_set("get_nullable_symbols", exp_nullable))
    m(CFG, "get_reachable_symbols", PROP, pre, make_post_set("get_reachable_symbols", exp_reachable))
    core.budget_funcs([CFG.get_words])


def judge_words(g, ref, n):
    from pyformlang.cfg import Terminal
    tags = tags_of(ref)
    if n is None:
        if not ref.is_finite():
            core.LOG.discard("unbounded_on_infinite_language")
            return
        bound = max(ref.max_len(12), 0)
        if bound >= 12:
            core.LOG.discard("finite_but_long")
            return
        from vf.ref.cfg import Grammar
        exp = Grammar(ref.useful_prods(), ref.start).words(bound)
    else:
        exp = ref.words(n)
    size = sum((len(w) + 1) ** 2 for w in exp) + 1
    budget = 200 * (len(ref.prods) + 1) * size * 4 + 20000
    core.LOG.count("C12.words")
    got = []
    try:
        with core.step_budget(budget):
            if n == 2 or n == 3:
                # a caller may stop reading the enumeration early, edit the word it was given, and enumerate again
                for w in g.get_words(n):
                    w.append("<edited by the caller>")
                    break
                core.LOG.count("C12.abandoned_generators")
            for w in (g.get_words() if n is None else g.get_words(n)):
                got.append(w)
    except core.StepBudgetExceeded:
        core.report(PROP, "get_words", "step-budget-exceeded", {"n": n, "budget": budget}, tags)
        return
    except core.CaseTimeout:
        raise
    except Exception as e:
        core.report(PROP, "get_words", "exception:" + type(e).__name__, {"n": n}, tags)
        return
    if n in (3, 4) and len(exp) <= 60:
        # the yielded lists belong to the caller: edited while the enumeration goes on, the rest must not change
        try:
            seen2 = []
            with core.step_budget(budget):
                for w in g.get_words(n):
                    seen2.append(tuple(getattr(s, "value", s) for s in w))
                    w.append("<edited by the caller>")
            core.LOG.count("C12.edited_while_enumerating")
            plain = collections.Counter(tuple(getattr(s_, "value", s_) for s_ in w) for w in got if isinstance(w, list))
            if plain == collections.Counter(exp) and collections.Counter(seen2) != collections.Counter(exp):
                # (a plain enumeration that is already wrong is judged below, under its own name)
                core.report(PROP, "get_words", "yielded-word-is-live",
                            {"n": n, "got": [list(map(repr, x)) for x in seen2[:6]]}, tags)
        except (core.StepBudgetExceeded, core.CaseTimeout):
            raise
        except Exception as e:      # noqa
            core.report(PROP, "get_words", "exception-after-caller-edit:" + type(e).__name__, {"n": n}, tags)
    bad = [w for w in got if not (isinstance(w, list) and all(isinstance(s, Terminal) for s in w))]
    if bad:
        core.report(PROP, "get_words", "not-a-list-of-terminals", {"n": n, "word": repr(bad[0])}, tags)
        return
    cnt = collections.Counter(tuple(s.value for s in w) for w in got)
    dup = [w for w, c in cnt.items() if c > 1]
    missing = exp - set(cnt)
    extra = set(cnt) - exp
    if dup:
        core.report(PROP, "get_words", "duplicate-word", {"n": n, "word": list(dup[0])}, tags)
    if missing:
        core.report(PROP, "get_words", "missing-word", {"n": n, "word": list(min(missing, key=len))}, tags)
    if extra:
        core.report(PROP, "get_words", "extra-word", {"n": n, "word": list(min(extra, key=len))}, tags)


def plan(tier, rng, sl, nslices, stats):
    from vf.props.c09 import special
    cfg = TIERS[tier]
    for i in range(cfg["random"]):
        if i % 8 == 0:
            yield special(rng)
        elif i % 400 == 39:
            yield gcfg.long_body_case(rng)
        elif i % 400 == 79:
            yield {"power": [rng.choice([2, 2, 3, 4]), rng.randint(5, 7)], "nv": 8, "nt": 1, "prods": [], "start": 0, "vc": "str"}
        elif i % 400 == 119 and sl == 0:
            yield gcfg.wide_case(rng)
        elif i % 40 == 39:
            yield gcfg.large_case(rng)
        else:
            yield gcfg.random_case(rng, max_terms=2, max_body=rng.choice([2, 3, 4]))
    if cfg.get("exhaustive"):
        tot = 0
        for i, c in enumerate(gcfg.exhaustive_cases(3)):
            tot += 1
            if i % nslices == sl:
                yield c
        stats.extra["exhaustive_complete"] = True
        stats.extra["exhaustive_scopes"] = "all %d grammars with 2 variables, 2 terminals, <=3 productions of body length <=2" % tot


def run_power(c, stats):
    """V0 -> V1^b, V1 -> V2^b, ..., Vk -> a : exactly one word, of length b^k (64 to 256): the enumeration must not
    give up across the long stretches of lengths without any word (judged directly, the language is known)"""
    from pyformlang.cfg import CFG, Production, Variable, Terminal
    b, k = c["power"]
    while b ** k > 130:
        k -= 1
    vs = [Variable("V%d" % i) for i in range(k + 1)]
    prods = {Production(vs[i], [vs[i + 1]] * b) for i in range(k)} | {Production(vs[k], [Terminal("a")])}
    g = CFG(start_symbol=vs[0], productions=prods)
    n = b ** k
    stats.cls("power_grammar")
    for bound in (None, n, n + 3, n - 1):
        try:
            with core.step_budget(60000000):
                got = [tuple(x.value for x in w) for w in (g.get_words() if bound is None else g.get_words(bound))]
        except core.StepBudgetExceeded:
            core.LOG.count("C12.power_budget_overrun")
            continue
        exp = [("a",) * n] if (bound is None or bound >= n) else []
        core.LOG.count("C12.power_words")
        with core.oracle_mode():
            if got != exp:
                core.report(PROP, "get_words", "missing-word" if len(got) < len(exp) else "extra-word",
                            {"bound": bound, "expected_length": n, "got_lengths": [len(x) for x in got][:5]},
                            ["power_grammar"])
    call(g.is_finite)
    call(g.is_empty)
    return True


def run_case(c, stats):
    if c.get("power"):
        return run_power(c, stats)
    g = gcfg.build(c)
    stats.cls("vc:" + c["vc"])
    with core.oracle_mode():
        ref = ref_of(g)
        fin = ref.is_finite()
        stats.cls("finite" if fin else "infinite")
        stats.cls("empty" if ref.is_empty() else "nonempty")
    if (c["nv"] + len(c["prods"])) % 5 == 2 and len(c["prods"]) >= 2:
        # bystanders queried first, in the same process: the same variables and terminals with one production less,
        # and the same Production objects under another start symbol
        from pyformlang.cfg import CFG, Variable
        by = gcfg.build(dict(c, prods=c["prods"][:-1]))
        for f in (by.is_empty, by.get_generating_symbols, by.get_nullable_symbols, by.is_finite):
            call(f)
        others = sorted(ref.variables - {ref.start}, key=repr)
        if others and g.start_symbol is not None:
            by2 = CFG(start_symbol=Variable(others[0]), productions=set(g.productions))
            for f in (by2.is_empty, by2.get_reachable_symbols, by2.get_generating_symbols, by2.is_finite):
                call(f)
            with core.oracle_mode():
                judge_words(by2, ref_of(by2), 2)
        stats.cls("bystanders_first")
    order = [g.is_empty, g.is_finite, g.get_generating_symbols, g.get_nullable_symbols, g.get_reachable_symbols,
             lambda: bool(g)]
    k = c["nv"] + len(c["prods"])
    order = order[k % 6:] + order[:k % 6]
    if k % 4 == 0:
        call(g.contains, [])              # the empty word asked first of the fresh object
    elif k % 4 == 1:
        call(g.generate_epsilon)
    for f in order:
        call(f)
    for n in (0, 1, 2, 3, 4, 5, None):
        if n is not None and n > 4 and c["nt"] > 1:
            continue
        g2 = g if (n or 0) % 2 == 0 else gcfg.build(c)
        with core.oracle_mode():
            judge_words(g2, ref, n)
    # grammars DERIVED from g once its analyses are warm: the same analyses asked of them are judged against their
    # own productions (a cache handed down by the parent would show)
    derive = [g.remove_epsilon, g.remove_useless_symbols, g.eliminate_unit_productions, g.to_normal_form,
              g.reverse, g.get_closure]
    for f in (derive[k % 6], derive[(k + 1 + k // 6) % 6]):
        ok, h = call(f)
        if ok and hasattr(h, "is_empty"):
            for q in (h.is_empty, h.get_generating_symbols, h.get_nullable_symbols, h.get_reachable_symbols,
                      h.is_finite):
                call(q)
            with core.oracle_mode():
                judge_words(h, ref_of(h), 2)
    if c.get("longbody"):
        # the normal form (ten or more helper variables) extended by a new long production: enumeration again
        from pyformlang.cfg import CFG, Production, Terminal
        okn, nf = call(g.to_normal_form)
        if okn:
            s_ = g.start_symbol
            t0_, t1_, t2_ = (Terminal(gcfg.tval(c, j)) for j in range(3))
            ok4, g3 = call(CFG, start_symbol=s_, productions=set(nf.productions) | {Production(s_, [t0_, s_, t1_, t2_])})
            if ok4:
                with core.oracle_mode():
                    r3 = ref_of(g3)
                    for n_ in (4, 6):
                        judge_words(g3, r3, n_)
    return len(ref.prods) >= 2 and not ref.is_empty()
