"""Contract layer: monitored() wrappers on the real pyformlang methods, the
event/violation log, per-case context, watchdogs and logical step budgets.

Contracts record and return: they never raise into the observed program and
never change a return value.  A re-entrancy flag switches monitoring off while
an oracle runs.
"""
import contextlib
import functools
import hashlib
import json
import signal
import sys
import traceback


class CaseTimeout(BaseException):
    """wall-clock watchdog fired: the case is inconclusive, never a verdict"""


class StepBudgetExceeded(BaseException):
    """logical step budget exhausted (bounded-progress restatement)"""


class OracleGaveUp(Exception):
    """reference model hit its own limit: case discarded as inconclusive"""


class Log:
    def __init__(self):
        self.reset()

    def reset(self):
        self.counters = {}          # "C01.accepts" -> evaluations of that contract
        self.violations = []        # dict records
        self.case = None            # current case (json-able)
        self.case_tags = ()         # classifier tags of the current case
        self.depth = 0              # nesting depth of monitored calls
        self.in_oracle = 0          # >0: monitoring switched off
        self.nested = 0             # monitored calls made by library code itself
        self.top = 0                # monitored calls made by the workload
        self.discarded = {}         # reason -> count
        self.inconclusive = {}      # reason -> count
        self.orders = set()         # iteration-order fingerprints
        self.contract_errors = []   # bugs of the monitors themselves

    def count(self, key, n=1):
        self.counters[key] = self.counters.get(key, 0) + n

    def discard(self, reason):
        self.discarded[reason] = self.discarded.get(reason, 0) + 1

    def inconc(self, reason):
        self.inconclusive[reason] = self.inconclusive.get(reason, 0) + 1


LOG = Log()
ACTIVE = set()      # property ids whose contracts judge (others only count)


def jsonable(x, depth=0):
    if depth > 8:
        return "..."
    if isinstance(x, (str, int, float, bool)) or x is None:
        return x
    if isinstance(x, (list, tuple)):
        return [jsonable(y, depth + 1) for y in x]
    if isinstance(x, (set, frozenset)):
        return sorted((jsonable(y, depth + 1) for y in x), key=repr)
    if isinstance(x, dict):
        return {str(k): jsonable(v, depth + 1) for k, v in x.items()}
    return repr(x)


def case_hash(case):
    return hashlib.sha1(json.dumps(jsonable(case), sort_keys=True).encode()).hexdigest()[:16]


def report(prop, sub, mode, detail=None, tags=None):
    """Record a violation observed by a monitor."""
    if prop not in ACTIVE:
        return
    rec = {"property": prop, "sub_claim": sub, "failure_mode": mode,
           "detail": jsonable(detail), "case": jsonable(LOG.case),
           "tags": sorted(set(LOG.case_tags) | set(tags or ()))}
    if len(LOG.violations) < 5000:
        LOG.violations.append(rec)
    LOG.count("violations." + prop)


@contextlib.contextmanager
def oracle_mode():
    """monitoring is off while reference code touches library objects"""
    LOG.in_oracle += 1
    try:
        yield
    finally:
        LOG.in_oracle -= 1


_WRAPPED = {}   # (cls, name) -> original


def monitored(cls, name, prop, pre=None, post=None):
    """Install a contract on cls.name.

    pre(self, args, kwargs) -> state (any)          [run in oracle mode]
    post(state, self, args, kwargs, result, exc)    [run in oracle mode]
    Both may call report().  Exceptions inside pre/post are bugs of the monitor,
    logged in LOG.contract_errors and surfaced as INCONCLUSIVE by the runner.
    """
    orig = cls.__dict__[name]
    is_static = isinstance(orig, (staticmethod, classmethod))
    if is_static:
        raise TypeError("static/class methods are wrapped with monitored_cm")
    key = prop + "." + cls.__name__ + "." + name

    @functools.wraps(orig)
    def wrapper(self, *args, **kwargs):
        if LOG.in_oracle:
            return orig(self, *args, **kwargs)
        if LOG.depth:
            LOG.nested += 1
        else:
            LOG.top += 1
        state = None
        ok_pre = True
        if pre is not None:
            LOG.in_oracle += 1
            try:
                state = pre(self, args, kwargs)
            except (CaseTimeout, StepBudgetExceeded):
                raise
            except OracleGaveUp:
                ok_pre = False
                LOG.discard("oracle_gave_up")
            except Exception:   # monitor bug
                ok_pre = False
                _contract_error(key, "pre")
            finally:
                LOG.in_oracle -= 1
        LOG.depth += 1
        exc = None
        result = None
        try:
            result = orig(self, *args, **kwargs)
            return result
        except (CaseTimeout, StepBudgetExceeded):
            ok_pre = False
            raise
        except BaseException as e:
            exc = e
            raise
        finally:
            LOG.depth -= 1
            if ok_pre and post is not None:
                LOG.in_oracle += 1
                try:
                    LOG.count(key)
                    post(state, self, args, kwargs, result, exc)
                except (CaseTimeout, StepBudgetExceeded):
                    raise
                except OracleGaveUp:
                    LOG.discard("oracle_gave_up")
                except Exception:
                    _contract_error(key, "post")
                finally:
                    LOG.in_oracle -= 1

    wrapper.__vf_orig__ = orig
    _WRAPPED[(cls, name, prop)] = orig
    setattr(cls, name, wrapper)
    return wrapper


def _contract_error(key, where):
    tb = traceback.format_exc()
    if len(LOG.contract_errors) < 20:
        LOG.contract_errors.append({"contract": key, "where": where, "trace": tb[-1500:],
                                    "case": jsonable(LOG.case)})
    LOG.count("contract_errors")


# ---------------------------------------------------------------- watchdogs

def _alarm(signum, frame):
    raise CaseTimeout()


@contextlib.contextmanager
def watchdog(seconds):
    """generous wall-clock limit; firing makes the case inconclusive"""
    old = signal.signal(signal.SIGALRM, _alarm)
    signal.setitimer(signal.ITIMER_REAL, seconds)
    try:
        yield
    finally:
        signal.setitimer(signal.ITIMER_REAL, 0)
        signal.signal(signal.SIGALRM, old)


_TOOL = 3
_tool_ready = False
_budget = {"left": None}
_anchor_hits = {}


def _ensure_tool():
    global _tool_ready
    if not _tool_ready:
        mon = sys.monitoring
        try:
            mon.use_tool_id(_TOOL, "vf")
        except ValueError:
            pass
        mon.register_callback(_TOOL, mon.events.LINE, _on_line)
        mon.register_callback(_TOOL, mon.events.PY_START, _on_start)
        _tool_ready = True


def _on_line(code, line):
    left = _budget["left"]
    if left is None:
        return
    left -= 1
    _budget["left"] = left
    if left < 0:
        _budget["left"] = None
        raise StepBudgetExceeded()


def _on_start(code, offset):
    _anchor_hits[code.co_qualname] = _anchor_hits.get(code.co_qualname, 0) + 1


def _code_of(func):
    func = getattr(func, "__vf_orig__", func)
    func = getattr(func, "__func__", func)
    while hasattr(func, "__wrapped__") and not hasattr(func, "__code__"):
        func = func.__wrapped__
    return func.__code__


def watch_anchors(funcs):
    """count entries into the anchor functions (local PY_START events)"""
    _ensure_tool()
    mon = sys.monitoring
    for f in funcs:
        code = _code_of(f)
        _anchor_hits.setdefault(code.co_qualname, 0)
        cur = mon.get_local_events(_TOOL, code)
        mon.set_local_events(_TOOL, code, cur | mon.events.PY_START)


def anchor_hits():
    return dict(_anchor_hits)


def resolve_anchors(anchors_fn):
    """the functions an anchors() names, and the expressions among them that no longer exist in the tree under test
    (a private helper renamed, inlined or removed by a refactoring): those are recorded, not demanded"""
    try:
        return list(anchors_fn()), []
    except (AttributeError, ImportError):
        pass
    import ast
    import inspect
    import textwrap
    fn = ast.parse(textwrap.dedent(inspect.getsource(anchors_fn))).body[0]
    ns = dict(anchors_fn.__globals__)
    found, missing = [], []
    for st in fn.body:
        if isinstance(st, (ast.Import, ast.ImportFrom)):
            try:
                exec(compile(ast.Module([st], []), "<anchors>", "exec"), ns)
            except (ImportError, AttributeError):
                missing.append(ast.unparse(st))
        elif isinstance(st, ast.Return) and isinstance(st.value, ast.List):
            for el in st.value.elts:
                try:
                    found.append(eval(compile(ast.Expression(el), "<anchors>", "eval"), ns))
                except (AttributeError, NameError):
                    missing.append(ast.unparse(el))
    return found, missing


def internal_anchor(f):
    """True for an anchored function a maintainer may rename, inline or leave unused without touching the public API: a
    name starting with an underscore, a module-level helper, or a method of a class that its package does not export.
    Such an anchor is reported when it is never entered but does not make the run inconclusive."""
    import importlib
    code = _code_of(f)
    parts = code.co_qualname.split(".")
    if parts[-1].startswith("_") and not parts[-1].startswith("__"):
        return True
    if len(parts) < 2:
        return True
    mod = getattr(f, "__module__", None) or getattr(getattr(f, "__func__", None), "__module__", "") or ""
    pkg = ".".join(mod.split(".")[:2])
    try:
        return not hasattr(importlib.import_module(pkg), parts[0])
    except ImportError:
        return True


def existing(owner, *names):
    """the attributes of `owner` among `names` that exist (private helpers may be gone after a refactoring)"""
    return [getattr(owner, n) for n in names if hasattr(owner, n)]


def budget_funcs(funcs):
    """enable LINE counting on these functions (only counted inside step_budget)"""
    _ensure_tool()
    mon = sys.monitoring
    for f in funcs:
        code = _code_of(f)
        cur = mon.get_local_events(_TOOL, code)
        mon.set_local_events(_TOOL, code, cur | mon.events.LINE)


@contextlib.contextmanager
def step_budget(n):
    """raise StepBudgetExceeded after n line events in the budget functions"""
    old = _budget["left"]
    _budget["left"] = n
    try:
        yield
    finally:
        _budget["left"] = old


@contextlib.contextmanager
def case(c, tags=()):
    old, oldt = LOG.case, LOG.case_tags
    LOG.case, LOG.case_tags = c, tuple(tags)
    try:
        yield
    finally:
        LOG.case, LOG.case_tags = old, oldt


def monitored_cm(cls, name, prop, pre=None, post=None):
    """contract on a classmethod: pre(cls, args, kwargs) / post(state, cls, args, kwargs, result, exc)"""
    raw = cls.__dict__[name]
    func = raw.__func__
    key = prop + "." + cls.__name__ + "." + name

    def wrapper(klass, *args, **kwargs):
        if LOG.in_oracle:
            return func(klass, *args, **kwargs)
        if LOG.depth:
            LOG.nested += 1
        else:
            LOG.top += 1
        state = None
        ok_pre = True
        if pre is not None:
            LOG.in_oracle += 1
            try:
                state = pre(klass, args, kwargs)
            except (CaseTimeout, StepBudgetExceeded):
                raise
            except OracleGaveUp:
                ok_pre = False
                LOG.discard("oracle_gave_up")
            except Exception:
                ok_pre = False
                _contract_error(key, "pre")
            finally:
                LOG.in_oracle -= 1
        LOG.depth += 1
        exc = None
        result = None
        try:
            result = func(klass, *args, **kwargs)
            return result
        except (CaseTimeout, StepBudgetExceeded):
            ok_pre = False
            raise
        except BaseException as e:
            exc = e
            raise
        finally:
            LOG.depth -= 1
            if ok_pre and post is not None:
                LOG.in_oracle += 1
                try:
                    LOG.count(key)
                    post(state, klass, args, kwargs, result, exc)
                except (CaseTimeout, StepBudgetExceeded):
                    raise
                except OracleGaveUp:
                    LOG.discard("oracle_gave_up")
                except Exception:
                    _contract_error(key, "post")
                finally:
                    LOG.in_oracle -= 1
    wrapper.__vf_orig__ = func
    wrapper.__name__ = name
    setattr(cls, name, classmethod(wrapper))


# ---------------------------------------------------------------- line coverage of the library (diagnostic, VF_LINECOV=1)
_COV_TOOL = 1
LINES_HIT = {}


def start_line_coverage(root):
    """records which lines of the library under `root` are executed at least once (each line's callback disables
    itself after the first hit, so the cost is negligible); tests are excluded"""
    import os
    mon = sys.monitoring
    root = os.path.realpath(root)
    mon.use_tool_id(_COV_TOOL, "vf-linecov")

    def on_line(code, line):
        fn = code.co_filename
        if fn.startswith(root) and "/tests/" not in fn:
            LINES_HIT.setdefault(fn[len(root) + 1:], set()).add(line)
        return mon.DISABLE
    mon.register_callback(_COV_TOOL, mon.events.LINE, on_line)
    mon.set_events(_COV_TOOL, mon.events.LINE)


def line_coverage():
    return {k: sorted(v) for k, v in LINES_HIT.items()}
