#!/venv/bin/python
"""usage: tools/coverage_gaps.py <dir with Cxx.<tier>.json written under VF_LINECOV> [repo]
Diagnostic: library lines (tests excluded) that no check's workload executed - where to aim new workload classes."""
import glob, json, os, sys
d = sys.argv[1]
repo = sys.argv[2] if len(sys.argv) > 2 else "/repo"
root = os.path.join(repo, "pyformlang")
hit = {}
per_prop = {}
for f in glob.glob(os.path.join(d, "*.json")):
    prop = os.path.basename(f).split(".")[0]
    for fn, ls in json.load(open(f)).items():
        hit.setdefault(fn, set()).update(ls)
        per_prop.setdefault(fn, {}).setdefault(prop, 0)
        per_prop[fn][prop] += len(ls)


def exec_lines(path):
    src = open(path).read()
    code = compile(src, path, "exec")
    out = set()
    todo = [code]
    while todo:
        c = todo.pop()
        for _, _, ln in c.co_lines():
            if ln:
                out.add(ln)
        for k in c.co_consts:
            if hasattr(k, "co_lines"):
                todo.append(k)
    return out, src.split("\n")


tot = cov = 0
for dirpath, _, files in os.walk(root):
    if "/tests" in dirpath:
        continue
    for fn in sorted(files):
        if not fn.endswith(".py"):
            continue
        path = os.path.join(dirpath, fn)
        rel = os.path.relpath(path, root)
        ex, src = exec_lines(path)
        # definitions (def/class/decorator/docstring lines) are executed at import, before monitoring starts
        miss = sorted(l for l in ex - hit.get(rel, set())
                      if not src[l - 1].lstrip().startswith(("def ", "class ", "@", '"""', "import ", "from ")))
        tot += len(ex)
        cov += len(ex) - len(miss)
        if miss:
            print("%s: %d of %d executable lines never run" % (rel, len(miss), len(ex)))
            for l in miss:
                print("   %4d  %s" % (l, src[l - 1].rstrip()[:110]))
print("TOTAL %d/%d lines executed by the checks' workloads" % (cov, tot))
