#!/bin/bash
# usage: tools/mutcheck.sh <patch.diff> <tier> <prop> [<prop>...]
# applies the patch to a private scratch worktree of /repo HEAD (never to /repo itself), runs the checks against it
# through VF_REPO, removes the worktree.  Safe to run concurrently.
patch=$(readlink -f "$1"); tier=$2; shift 2
cd "$(dirname "$0")/.."
mkdir -p /tmp/mut
W=$(mktemp -d /tmp/mut/eval.XXXXXX); rmdir $W
git -C /repo worktree add -q --detach $W ${MUT_BASE:-HEAD} || exit 3
trap 'git -C /repo worktree remove --force $W >/dev/null 2>&1; rm -rf $W.out' EXIT
if ! git -C $W apply "$patch"; then echo "PATCH-DOES-NOT-APPLY $patch"; exit 3; fi
export VF_REPO=$W VF_EVIDENCE_DIR=$W.out/evidence VF_REPLAY_DIR=/tmp/mut/replays
rcall=0
for p in "$@"; do
  out=$(./check $p --tier $tier 2>&1); rc=$?
  echo "$p rc=$rc $(echo "$out" | grep -E "^VIOLATION|^HELD|^INCONCLUSIVE" | head -2 | cut -c1-260)"
  [ $rc -eq 1 ] && rcall=1
done
exit $rcall
