#!/bin/bash
# usage: tools/mutcheck.sh <patch.diff> <tier> <prop> [<prop>...]
# applies the patch to a scratch worktree of /repo (never to /repo itself), runs the checks against it, undoes it.
patch=$(readlink -f "$1"); tier=$2; shift 2
cd "$(dirname "$0")/.."
W=/tmp/mut/eval
if [ ! -d $W ]; then git -C /repo worktree add -q --detach $W HEAD; fi
git -C $W checkout -q --detach $(git -C /repo rev-parse HEAD) 2>/dev/null
git -C $W checkout -q -- . ; git -C $W clean -fdq
if ! git -C $W apply "$patch"; then echo "PATCH-DOES-NOT-APPLY $patch"; exit 3; fi
export VF_REPO=$W VF_EVIDENCE_DIR=/tmp/mut/evidence VF_REPLAY_DIR=/tmp/mut/replays
rcall=0
for p in "$@"; do
  out=$(./check $p --tier $tier 2>&1); rc=$?
  echo "$p rc=$rc $(echo "$out" | grep -E "^VIOLATION|^HELD|^INCONCLUSIVE" | head -2 | cut -c1-260)"
  [ $rc -eq 1 ] && rcall=1
done
git -C $W checkout -q -- . ; git -C $W clean -fdq
exit $rcall
