#!/bin/bash
# usage: tools/rebase_seeded.sh <name>   - re-creates seeded/<name>/patch.diff against the current /repo HEAD (3-way)
n=$1; cd "$(dirname "$0")/.."
W=$(mktemp -d /tmp/mut/rb.XXXXXX); rmdir $W
git -C /repo worktree add -q --detach $W HEAD || exit 3
if git -C $W apply --3way $(readlink -f seeded/$n/patch.diff) >/dev/null 2>&1 && [ -z "$(git -C $W diff --name-only --diff-filter=U)" ]; then
  git -C $W diff --cached > seeded/$n/patch.diff.new
  if [ -s seeded/$n/patch.diff.new ]; then mv seeded/$n/patch.diff.new seeded/$n/patch.diff; echo "$n rebased"; else rm -f seeded/$n/patch.diff.new; echo "$n EMPTY"; fi
else
  echo "$n CONFLICT"
fi
git -C /repo worktree remove --force $W
