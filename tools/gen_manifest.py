#!/venv/bin/python
"""Regenerate MANIFEST.json from the property modules that exist in vf/props."""
import importlib
import json
import os
import sys

ROOT = os.path.dirname(os.path.dirname(os.path.abspath(__file__)))
sys.path.insert(0, ROOT)

ALL = ["C%02d" % i for i in range(1, 21)]
checks, na = [], []
for p in ALL:
    path = os.path.join(ROOT, "vf", "props", p.lower() + ".py")
    if not os.path.exists(path):
        na.append({"property_id": p, "reason": "monitor not built yet in this session (planned in DESIGN.md section 5); nothing is claimed"})
        continue
    mod = importlib.import_module("vf.props." + p.lower())
    checks.append({
        "property_id": p,
        "quick_cmd": "./check %s --tier quick" % p,
        "thorough_cmd": "./check %s --tier thorough" % p,
        "evidence_file": "evidence/%s.json" % p,
        "replay_cmd_template": "./check %s --replay {path}" % p,
        "engine": "vf",
        "level_claimed": {
            "category": "exploration",
            "text": getattr(mod, "LEVEL_TEXT", "runtime contracts on the real pyformlang methods compare every observed call with an independent reference model; held on the monitored executions only (small scopes, seeded random + hostile value classes + several PYTHONHASHSEEDs)"),
            "design_ref": "DESIGN.md section 5, " + p,
        },
        "level_note": getattr(mod, "LEVEL_NOTE", "trusted base: reference models in vf/ref (cross-validated by ./check selftest); scopes are small; observations listed in known_findings.json are reported as KNOWN-FINDING and do not fail the check"),
        "technique": getattr(mod, "TECHNIQUE", "runtime contracts (monkeypatched pre/postconditions on the real methods) with reference-model oracle, driven by seeded hostile workloads under several hash seeds"),
    })

man = {
    "version": 1,
    "setup_cmd": "/venv/bin/python -B -m vf.selftest --quick",
    "hooks": {
        "guard": "PYFORMLANG_VERIF",
        "enable": "PYFORMLANG_VERIF=1 PYTHONPATH=/verif /venv/bin/python -B -m vf.worker ... (contracts are installed from the harness by monkeypatching the real classes; no source change in /repo is needed)",
        "baseline_off_cmd": "cd /repo && /venv/bin/python -m pytest -ra -q -p no:cacheprovider --timeout=900 --continue-on-collection-errors",
        "source_commits": [],
        "add_only": True,
    },
    "engines": [{"name": "vf", "path": "vf/", "serves_properties": [c["property_id"] for c in checks],
                 "kind_free_text": "runtime contracts + reference-model monitors + offline history checker (Python, sys.monitoring step budgets and anchor counters)"}],
    "checks": checks,
    "not_applicable": na,
    "notes": "All checks: ./check <ID> --tier quick|thorough; VERIF_SEED selects the random workload; exit 0 held / 1 VIOLATION / 2 INCONCLUSIVE.",
}
json.dump(man, open(os.path.join(ROOT, "MANIFEST.json"), "w"), indent=1)
print("checks:", [c["property_id"] for c in checks])
