#!/venv/bin/python
"""Regenerates the two machine-written tables of DESIGN.md in place:
   7.1 (repaired defects, from known_findings.json "fixed") and 8 (seeded changes, from seeded/*/meta.json)."""
import glob, json, os, re
root = os.path.join(os.path.dirname(os.path.abspath(__file__)), "..")
path = os.path.join(root, "DESIGN.md")
lines = open(path).read().split("\n")


def esc(s):
    return str(s).replace("|", "\\|").replace("\n", " ")


def replace_table(lines, header_prefix, rows):
    i = next(k for k, l in enumerate(lines) if l.startswith(header_prefix))
    j = i + 2
    while j < len(lines) and lines[j].startswith("|"):
        j += 1
    return lines[:i + 2] + rows + lines[j:]


kf = json.load(open(os.path.join(root, "known_findings.json")))
rows = []
for f in kf["fixed"]:
    m = re.match(r"fixed: property=(\S+) (\S+) (.*)", f, re.S)
    rows.append("| %s | `%s` | %s |" % (m.group(1), m.group(2), esc(m.group(3))))
lines = replace_table(lines, "| property | commit | what failed", rows)

rows = []
def key(d):
    n = os.path.basename(d.rstrip("/"))
    return (n.split("-")[0], int(n.split("-")[1]))
for d in sorted(glob.glob(os.path.join(root, "seeded", "*/")), key=key):
    n = os.path.basename(d.rstrip("/"))
    m = json.load(open(os.path.join(d, "meta.json")))
    res = m.get("check_result", "")
    if m.get("caught_by"):
        res = m.get("check_result_" + m["caught_by"], res)
    sub = re.search(r"sub_claim=(\S+)", res)
    fm = re.search(r"failure_mode=(\S+)", res)
    caught = "%s / %s" % (sub.group(1), fm.group(1)) if sub and fm else ("caught" if m.get("caught") else "MISSED")
    if m.get("caught_by"):
        caught = "by %s: %s" % (m["caught_by"], caught)
    rows.append("| `%s` | %s | %s | %s | %s |" % (n, esc(m.get("summary", ""))[:200], esc(m.get("needs", ""))[:170],
                                                  esc(caught), esc(m.get("note", ""))))
lines = replace_table(lines, "| seeded change | what was changed", rows)
open(path, "w").write("\n".join(lines))
print("fixed rows:", len(kf["fixed"]), "seeded rows:", len(rows))
