#!/venv/bin/python
"""usage: tools/adopt_mutant.py <prop> <k> "<caught-by / note>"  - copies a confirmed seeded change into /verif/seeded"""
import json, os, shutil, subprocess, sys
prop, k, note = sys.argv[1], sys.argv[2], sys.argv[3]
src = "/tmp/mut/%s/MUTANT%s" % (prop, k)
dst = "/verif/seeded/%s-%s" % (prop, k)
os.makedirs(dst, exist_ok=True)
for f in ("patch.diff", "demo.py"):
    shutil.copy(os.path.join(src, f), os.path.join(dst, f))
meta = json.load(open(os.path.join(src, "meta.json")))
out = subprocess.run(["/verif/tools/eval_mutant.sh", prop, k], capture_output=True, text=True).stdout.strip()
meta["breaks_property"] = prop
meta["confirmed_by"] = ("applied to a scratch worktree of /repo HEAD: pytest pyformlang -> 289 passed; demo.py exits 1 with the "
                        "change and 0 on the unchanged tree; then tools/mutcheck.sh patch.diff quick " + prop)
meta["check_result"] = out
meta["caught"] = " rc=1 " in out or "VIOLATION" in out
meta["note"] = note
meta["repo_head_when_confirmed"] = subprocess.check_output(["git", "-C", "/repo", "rev-parse", "--short", "HEAD"], text=True).strip()
json.dump(meta, open(os.path.join(dst, "meta.json"), "w"), indent=1)
print(dst, "caught" if meta["caught"] else "MISSED", out[-200:])
