#!/bin/bash
# usage: tools/sweep.sh <tier> <seeds...>  - runs every check for each seed, prints one line per run
tier=$1; shift
cd "$(dirname "$0")/.."
for s in "$@"; do
  for p in C01 C02 C03 C04 C05 C06 C07 C08 C09 C10 C11 C12 C13 C14 C15 C16 C17 C18 C19 C20; do
    out=$(VERIF_SEED=$s ./check $p --tier $tier 2>&1); rc=$?
    echo "seed=$s $p rc=$rc $(echo "$out" | grep -v KNOWN-FINDING | tail -1 | cut -c1-220)"
    if [ $rc -ne 0 ]; then echo "$out" | grep -E "VIOLATION|INCONCLUSIVE" | head -5 | cut -c1-300; fi
  done
done
