#!/bin/bash
# usage: tools/eval_preserving.sh <name> <prop> [<prop>...]   e.g. tools/eval_preserving.sh R1-2 C01 C02
# runs the quick checks against a behaviour-PRESERVING change of the library (preserving/<name>/patch.diff, written by an
# independent sub-agent that saw only the property texts): every check must stay HELD.  Uses a private scratch worktree.
n=$1; shift
cd "$(dirname "$0")/.."
pin=$(/venv/bin/python -c "import json,sys; print(json.load(open(sys.argv[1])).get('pin_commit',''))" preserving/$n/meta.json 2>/dev/null)
[ -n "$pin" ] && export MUT_BASE=$pin
echo "== $n"; tools/mutcheck.sh preserving/$n/patch.diff quick "$@" 2>&1 | cut -c1-330
