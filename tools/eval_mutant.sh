#!/bin/bash
# usage: tools/eval_mutant.sh <prop> <k> [tier]
# confirms a seeded change (tests pass, demo fails with it and passes without) and runs the property's check on it.
# Uses private scratch worktrees of /repo HEAD; safe to run concurrently.
prop=$1; k=$2; tier=${3:-quick}
cd "$(dirname "$0")/.."
src=/tmp/mut/$prop/MUTANT$k
[ -d seeded/$prop-$k ] && src=seeded/$prop-$k
patch=$(readlink -f $src/patch.diff); demo=$(readlink -f $src/demo.py)
# a seeded change whose lines were later rewritten by a fix: commit is evaluated on the tree it was written for
pin=$(/venv/bin/python -c "import json,sys; print(json.load(open(sys.argv[1])).get('pin_commit',''))" $src/meta.json 2>/dev/null)
[ -n "$pin" ] && export MUT_BASE=$pin
mkdir -p /tmp/mut
W=$(mktemp -d /tmp/mut/conf.XXXXXX); rmdir $W
git -C /repo worktree add -q --detach $W ${MUT_BASE:-HEAD} || exit 3
if ! git -C $W apply "$patch" 2>/dev/null; then
  echo "$prop-$k PATCH-DOES-NOT-APPLY"; git -C /repo worktree remove --force $W; exit 3
fi
tests=$(cd $W && PYTHONPATH=$W /venv/bin/python -m pytest -q -p no:cacheprovider -x pyformlang 2>&1 | tail -1)
(cd /tmp && PYTHONPATH=$W timeout 300 /venv/bin/python $demo >/dev/null 2>&1); dm=$?
(cd /tmp && PYTHONPATH=/repo timeout 300 /venv/bin/python $demo >/dev/null 2>&1); do_=$?
git -C /repo worktree remove --force $W >/dev/null 2>&1
res=$(tools/mutcheck.sh $patch $tier $prop 2>&1 | tail -1)
echo "$prop-$k tests=[$tests] demo_mutant=$dm demo_original=$do_ | $res" | cut -c1-420
