#!/bin/bash
# usage: tools/eval_mutant.sh <prop> <k> [tier]
# confirms a seeded change (tests pass, demo fails with it and passes without) and runs the property's check on it
prop=$1; k=$2; tier=${3:-quick}
cd "$(dirname "$0")/.."
src=/tmp/mut/$prop/MUTANT$k
[ -d seeded/$prop-$k ] && src=seeded/$prop-$k
patch=$(readlink -f $src/patch.diff); demo=$(readlink -f $src/demo.py)
W=/tmp/mut/eval
if [ ! -d $W ]; then git -C /repo worktree add -q --detach $W HEAD; fi
git -C $W checkout -q --detach $(git -C /repo rev-parse HEAD); git -C $W checkout -q -- . ; git -C $W clean -fdq
if ! git -C $W apply "$patch" 2>/dev/null; then echo "$prop-$k PATCH-DOES-NOT-APPLY"; exit 3; fi
tests=$(cd $W && PYTHONPATH=$W /venv/bin/python -m pytest -q -p no:cacheprovider -x pyformlang 2>&1 | tail -1)
(cd /tmp && PYTHONPATH=$W timeout 300 /venv/bin/python $demo >/dev/null 2>&1); dm=$?
(cd /tmp && PYTHONPATH=/repo timeout 300 /venv/bin/python $demo >/dev/null 2>&1); do_=$?
git -C $W checkout -q -- . ; git -C $W clean -fdq
res=$(tools/mutcheck.sh $patch $tier $prop 2>&1 | tail -1)
echo "$prop-$k tests=[$tests] demo_mutant=$dm demo_original=$do_ | $res" | cut -c1-420
