#!/bin/bash
# re-confirms every seeded change against the current /repo HEAD and re-runs its property's quick check
cd "$(dirname "$0")/.."
for d in seeded/*/; do n=$(basename $d); p=${n%-*}; k=${n#*-}; tools/eval_mutant.sh $p $k ${1:-quick}; done
